#!/usr/bin/env python3
"""Corpus generator for the strum simulation engines.

Emits, per engine, a Rust file with enum definitions that use the strum derives (the system
under test) AND, from the same declarative spec, the reference facts the oracle needs, written out
explicitly (never derived by calling strum).

Determinism: random.Random(seed), lists only (no set/dict iteration order dependence).
usage: gen_corpus.py --seed N --out DIR [--engines c05,c10,c11,c17] [--size small|base|large]
"""
import argparse
import os
import random
import sys

sys.path.insert(0, os.path.dirname(os.path.abspath(__file__)))

import gen_c05  # noqa: E402
import gen_c10  # noqa: E402
import gen_c17  # noqa: E402
import gen_c11  # noqa: E402

ENGINES = {
    "c05": gen_c05.generate,
    "c10": gen_c10.generate,
    "c17": gen_c17.generate,
    "c11": gen_c11.generate,
}


def main():
    ap = argparse.ArgumentParser()
    ap.add_argument("--seed", type=int, default=0)
    ap.add_argument("--out", required=True)
    ap.add_argument("--engines", default="c05,c10,c11,c17")
    ap.add_argument("--size", default="base")
    a = ap.parse_args()
    os.makedirs(a.out, exist_ok=True)
    import noise
    noise.MINIMAL[0] = (a.size == "minimal")
    for e in a.engines.split(","):
        rng = random.Random("%s-%d" % (e, a.seed))
        files = ENGINES[e](rng, a.seed, a.size)
        for name, text in files:
            with open(os.path.join(a.out, name), "w") as f:
                f.write(text)
    with open(os.path.join(a.out, "SEED"), "w") as f:
        f.write("%d %s\n" % (a.seed, a.size))


if __name__ == "__main__":
    main()

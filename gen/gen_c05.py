"""C05 corpus: enums deriving EnumIter, plus the generator-written expected item list."""
import noise


PAYLOADS = ["u8", "i64", "String", "Option<u16>", "P", "Seven", "Vec<u8>", "(u8, bool)", "char", "bool", "Box<u8>", "&'static str",
            "()", "[u8; 3]", "std::rc::Rc<u8>", "core::marker::PhantomData<u8>", "Option<Box<Seven>>", "std::string::String",
            "::core::option::Option<u8>", "(String, (u8, char))"]

# variant identifiers that collide with prelude items or with names the generated code uses internally
TRICKY_IDENTS = ["_A", "B_", "C1_", "D_e", "AVeryLongVariantIdentifierThatGoesOnAndOnAndOnForMoreThanSixtyFourCharactersInTotal", "Some", "None", "Ok", "Err", "Option", "Default", "Iterator", "Clone", "Self_", "Idx", "BackIdx", "Marker", "Get",
                 "Len", "Next", "Nth", "T", "U", "K", "Item", "PhantomData", "Box", "Vec", "String"]

PLACEMENTS = ["none", "first", "middle", "last", "adjacent", "alternating", "all", "random"]


def disabled_mask(rng, placement, n_enabled):
    """Returns a list of booleans (True = disabled) describing the declared variants, containing
    exactly n_enabled enabled ones."""
    en = [False] * n_enabled
    if placement == "none":
        return en
    if placement == "first":
        return [True] + en
    if placement == "last":
        return en + [True]
    if placement == "middle":
        if n_enabled < 2:
            return [True] + en
        k = rng.randrange(1, n_enabled)
        return en[:k] + [True] + en[k:]
    if placement == "adjacent":
        k = rng.randrange(0, n_enabled + 1)
        return en[:k] + [True, True] + en[k:]
    if placement == "alternating":
        out = [True]
        for _ in range(n_enabled):
            out += [False, True]
        return out
    if placement == "all":
        # "all" only makes sense for n_enabled == 0
        return [True] * max(1, rng.randrange(1, 4)) if n_enabled == 0 else [True] + en + [True]
    # random
    out = list(en)
    for _ in range(rng.randrange(1, 4)):
        out.insert(rng.randrange(0, len(out) + 1), True)
    return out


def gen_enum(rng, idx, n_enabled, placement, generics, kinds, robust=False):
    """generics in {"none", "T", "TW", "TK", "TU"}"""
    name = "E%d" % idx
    mask = disabled_mask(rng, placement, n_enabled)
    variants = []
    tricky = None
    if not robust and generics == "none" and len(mask) <= 20 and rng.random() < 0.25:
        tricky = list(TRICKY_IDENTS)
        rng.shuffle(tricky)
    for vi, dis in enumerate(mask):
        kind = rng.choice(kinds)
        nf = 0 if kind == "unit" else rng.choice([1, 1, 2, 3])
        pool = list(PAYLOADS)
        if generics in ("T", "TW", "TK", "TU"):
            pool += ["T", "T", "T"]
        if generics == "TK":
            pool += ["Arr<K>", "Arr<K>"]
        if generics == "TU":
            pool += ["U", "U"]
        if robust:
            pool = ["u8", "String"]
        elif dis and rng.random() < 0.5:
            pool = ["NoDefault"]  # a disabled variant may hold a type without Default
        tys = [rng.choice(pool) for _ in range(nf)]
        if not dis:
            # (own PRNG stream) a field type that has an inherent `default()` next to its Default impl
            import random as _r
            ir = _r.Random("c05-inh-%s-%d" % (name, vi))
            tys = ["Inh" if (ir.random() < 0.12 and t not in ("T", "U", "NoDefault", "Arr<K>")) else t for t in tys]
            # ... and one whose Default panics while the simulator arms it (injected fault in user code)
            tys = ["Bomb" if (ir.random() < 0.1 and t not in ("T", "U", "NoDefault", "Arr<K>", "Inh")) else t for t in tys]
        extra = ""
        if not dis and not noise.MINIMAL[0] and kind == "tuple" and nf == 1 and tys[0] in ("u8", "String", "Seven") and rng.random() < 0.3:
            # default_with belongs to EnumString: the iterator still yields Default::default() payloads
            extra = '#[strum(default_with = "dw_%s")]' % tys[0].lower()
        elif not dis and not robust and rng.random() < 0.15:
            extra = rng.choice(['#[strum(serialize = "x%d")]' % vi, '#[strum(to_string = "t%d")]' % vi,
                                '#[strum(message = "m")]', '#[strum(props(a = "b"))]'])
        if not extra:
            fs = noise.foreign_switch("c05-%s-%d" % (name, vi), 0.12 if len(mask) <= 70 else 0.02)
            if fs:
                extra = fs[0]
        ident = "V%d" % vi
        if tricky and vi < len(tricky):
            ident = tricky[vi]
        variants.append(dict(ident=ident, kind=kind, tys=tys, disabled=dis, extra=extra,
                             plain=False, key="%s-%d" % (name, vi),
                             noise=[] if len(mask) > 300 else noise.variant_noise(rng, 0.25, True, extra)))
    # every type parameter must be used by some variant (rustc E0392)
    want = {"none": [], "T": ["T"], "TW": ["T"], "TK": ["T"], "TU": ["T", "U"]}[generics]
    for g in want:
        flat = [t for v in variants for t in v["tys"]]
        if g in flat:
            continue
        placed = False
        for v in variants:
            if v["kind"] != "unit" and not v["disabled"]:
                v["tys"].append(g)
                placed = True
                break
        if not placed:
            variants.append(dict(ident="W%d" % len(variants), kind="tuple", tys=[g], disabled=True, extra=""))
    # one variant may be spelled as a raw identifier (`r#type`): a name like any other
    ri = noise.raw_ident("c05-%s" % name) if not robust else None
    cands = [v for v in variants if v["ident"].startswith("V") and v["ident"][1:].isdigit()]
    if ri and cands and len(variants) <= 70:
        import random as _r
        _r.Random("raw-ident-pos-c05-%s" % name).choice(cands)["ident"] = ri
    return dict(name=name, generics=generics, variants=variants, n=sum(1 for v in variants if not v["disabled"]),
                placement=placement, vis="pub" if robust else noise.visibility("c05-%s" % name))


GEN_DECL = {
    "none": ("", ""),
    "TW": ("<T> where T: Default", "<{0}>"),
    "T": ("<T: Default>", "<{0}>"),
    "TK": ("<T: Default, const K: usize>", "<{0}, 3>"),
    "TU": ("<T: Default, U: Default>", "<{0}, {1}>"),
}


INTERNAL_FIELD_NAMES = ["idx", "back_idx", "marker"]


def fname(v, i):
    # variants with an even number in their name use field names that the generated iterator struct also uses
    if v["ident"].startswith("V") and v["ident"][1:].isdigit() and int(v["ident"][1:]) % 4 == 2 and i < 3:
        return INTERNAL_FIELD_NAMES[i]
    return "f%d" % i


def render_variant(v):
    attrs = ""
    lines = []
    if v["disabled"]:
        lines.append("#[strum(disabled)]")
    if v["extra"]:
        lines.append(v["extra"])
    # noise goes before, between and after the strum attributes
    import random as _r
    rr = _r.Random(v["ident"] + str(len(v.get("noise", []))))
    if not v.get("plain"):
        lines = noise.fold_disabled(rr, lines)
    for l in noise.respell("c05-" + v.get("key", v["ident"]), noise.trailing_commas(rr, noise.place(rr, lines, v.get("noise", [])))):
        attrs += "    %s\n" % l
    if v["kind"] == "unit":
        body = v["ident"] + (" = %d" % v["discr"] if v.get("discr") is not None else "")
    elif v["kind"] == "tuple":
        body = "%s(%s)" % (v["ident"], ", ".join(v["tys"]))
    else:
        body = "%s { %s }" % (v["ident"], ", ".join("%s: %s" % (fname(v, i), t) for i, t in enumerate(v["tys"])))
    return "%s    %s,\n" % (attrs, body)


def render_value(e, v, inst):
    path = "%s::%s" % (e["name"], v["ident"])
    if v["kind"] == "unit":
        return path
    if v["kind"] == "tuple":
        return "%s(%s)" % (path, ", ".join("Default::default()" for _ in v["tys"]))
    return "%s { %s }" % (path, ", ".join("%s: Default::default()" % fname(v, i) for i, _ in enumerate(v["tys"])))


def describe(e):
    parts = []
    vs = e["variants"]
    if len(vs) > 24:
        return "enum %s { %d variants, %d enabled, discriminants %s }" % (e["name"], len(vs), e["n"], e.get("discr_mode", "implicit"))
    for v in vs:
        s = v["ident"]
        if v["kind"] == "tuple":
            s += "(%s)" % ",".join(v["tys"])
        elif v["kind"] == "named":
            s += "{%s}" % ",".join(v["tys"])
        if v.get("discr") is not None:
            s += "=%d" % v["discr"]
        if v["disabled"]:
            s = "~" + s
        parts.append(s)
    return "enum %s%s { %s }" % (e["name"], GEN_DECL[e["generics"]][0], " ".join(parts))


def generate(rng, seed, size):
    if size == "huge":
        return [("c05_huge.rs", generate_huge(rng, seed, size))]
    enums = []
    idx = 0
    target = {"small": 24, "base": 96, "large": 160, "robust": 30, "minimal": 24}[size]
    robust = size in ("robust", "minimal")
    minimal = size == "minimal"
    # systematic part: every N in 0..8 with every placement at least once
    combos = []
    for n in range(0, 9):
        for pl in PLACEMENTS:
            if pl == "all" and n != 0:
                continue
            combos.append((n, pl))
    rng.shuffle(combos)
    # always keep N=0 "none" (the empty enum) and N=0 "all"
    must = [(0, "none"), (0, "all"), (1, "none"), (8, "none"), (8, "alternating")]
    combos = must + [c for c in combos if c not in must]
    kinds_opts = [["unit"], ["unit", "tuple"], ["unit", "tuple", "named"], ["tuple", "named"], ["named"]]
    for (n, pl) in combos:
        if len(enums) >= target - 4:
            break
        generics = rng.choice(["none", "none", "none", "T", "TW", "TK", "TU"])
        kinds = rng.choice(kinds_opts)
        if robust:
            # conservative shapes only: no generics, unit / one-field tuple variants
            generics = "none"
            kinds = ["unit", "unit", "tuple"]
        if generics != "none" and kinds == ["unit"]:
            kinds = ["unit", "tuple"]
        enums.append(gen_enum(rng, idx, n, pl, generics, kinds, robust))
        idx += 1
    # a few larger enums
    # larger enums, including sizes around integer-width boundaries
    extra_sizes = [] if robust else sorted(rng.sample(range(9, 300), 3 if size != "small" else 1))
    for n in ([] if robust else ([13, 21, 33, 64, 127, 128, 255, 256, 257, 1025, 4097] if size != "small" else [13, 33])) + extra_sizes:
        enums.append(gen_enum(rng, idx, n, rng.choice(["none", "random", "alternating"] if n < 100 else ["none", "random", "middle"]), "none", ["unit", "unit", "tuple"] if n < 100 else ["unit"]))
        idx += 1
    # systematic: field-less enums WITHOUT disabled variants under an integer repr whose discriminants form a dense block
    # declared out of numeric order (descending, shuffled, around zero) - declaration order decides, never the values
    forced_discr = {}
    if not robust and size != "small":
        import random as _r
        frng = _r.Random("c05-dense-repr-%d" % seed)
        for (n, repr_ty, how) in [(5, "i8", "around_zero"), (7, "u8", "shuffled"), (3, "isize", "descending"), (12, "i64", "around_zero")]:
            e = gen_enum(frng, idx, n, "none", "none", ["unit"])
            for v in e["variants"]:
                v["extra"], v["noise"] = "", []
            if how == "descending":
                vals = [n - 1 - i for i in range(n)]
            elif how == "shuffled":
                vals = list(range(n)); frng.shuffle(vals)
            else:
                vals = [i - n // 2 for i in range(n)]; frng.shuffle(vals)
            if vals == sorted(vals):
                vals.reverse()
            forced_discr[e["name"]] = (vals, repr_ty, how)
            enums.append(e)
            idx += 1
    # explicit discriminants on all-unit enums (iteration order is declaration order, whatever the values)
    for e in enums:
        if e["name"] in forced_discr:
            vals, repr_ty, how = forced_discr[e["name"]]
            for v, d in zip(e["variants"], vals):
                v["discr"] = d
            e["repr"] = repr_ty
            e["discr_mode"] = "dense %s repr(%s)" % (how, repr_ty)
            continue
        if robust or e["generics"] != "none" or any(v["kind"] != "unit" for v in e["variants"]) or not e["variants"]:
            continue
        if rng.random() < 0.5:
            nv = len(e["variants"])
            mode = rng.choice(["descending", "shuffled", "gapped"])
            if mode == "descending":
                vals = [nv - 1 - i for i in range(nv)]
            elif mode == "shuffled":
                vals = list(range(nv)); rng.shuffle(vals)
            else:
                vals = sorted(rng.sample(range(0, 10 * nv + 10), nv))
            for v, d in zip(e["variants"], vals):
                v["discr"] = d
            e["discr_mode"] = mode
            # half of them also carry an integer repr (own PRNG stream): declaration order still decides
            import random as _r
            rr = _r.Random("c05-repr-%d-%s" % (seed, e["name"]))
            if rr.random() < 0.6:
                fits = ["u8", "i16", "u16", "i32", "u32", "i64", "isize", "usize"] if max(vals) <= 255 else ["i16", "u16", "i32", "u32", "i64", "isize", "usize"]
                if max(vals) > 32767:
                    fits = ["i32", "u32", "i64", "isize", "usize"]
                e["repr"] = rr.choice(fits)
                e["discr_mode"] = "%s repr(%s)" % (mode, e["repr"])

    out = []
    out.append("// @generated by /verif/gen/gen_corpus.py --seed %d (engine c05, size %s). Do not edit.\n" % (seed, size))
    out.append("use strum::EnumIter;\n")
    out.append("use strum_sim::c05::{mk, Arr, Bomb, Case, Inh, IterHandle, NoDefault, NotSendSync, Seven, P};\n\n")
    out.append("fn dw_u8() -> u8 { 99 }\nfn dw_string() -> String { String::from(\"not the default\") }\nfn dw_seven() -> Seven { Seven(-1) }\n\n")
    cases = []
    probes = []
    for e in enums:
        out.append("// @case-begin %s\n" % e["name"])
        decl, inst_fmt = GEN_DECL[e["generics"]]
        if not robust:
            for l in noise.enum_noise(rng):
                out.append(l + "\n")
        out.append("#[derive(EnumIter, Debug, PartialEq)]\n")
        if not robust:
            for l in noise.extra_derives("c05-%d-%s" % (seed, e["name"]), ["strum::EnumCount", "strum::AsRefStr", "strum::EnumMessage",
                                                                           "strum::EnumProperty", "strum::VariantNames", "strum::IntoStaticStr"]):
                out.append(l + "\n")
            for l in noise.enum_strum_noise(rng):
                out.append(l + "\n")
        if e.get("repr"):
            out.append("#[repr(%s)]\n" % e["repr"])
        out.append("%s enum %s%s {\n" % (e.get("vis", "pub"), e["name"], decl))
        for v in e["variants"]:
            out.append(render_variant(v))
        out.append("}\n")
        insts = [("", "plain")]
        if e["generics"] != "none":
            insts = [(inst_fmt.format("u8", "String"), "u8"), (inst_fmt.format("NotSendSync", "NotSendSync"), "nss")]
            if e.get("vis", "pub") in ("pub", "pub(crate)", "pub(super)"):
                probes.append("%s%s" % (e["name"], inst_fmt.format("NotSendSync", "NotSendSync")))
        elif e.get("vis", "pub") in ("pub", "pub(crate)", "pub(super)"):
            probes.append(e["name"])
        for (inst, tag) in insts:
            fn = "exp_%s_%s" % (e["name"].lower(), tag)
            ty = "%s%s" % (e["name"], inst)
            vals = [render_value(e, v, inst) for v in e["variants"] if not v["disabled"]]
            out.append("fn %s() -> Vec<%s> {\n    vec![%s]\n}\n" % (fn, ty, ", ".join(vals)))
            desc = describe(e) + ("" if not inst else " as %s" % ty)
            cases.append('    Case { name: "%s_%s", n: %d, desc: "%s", make: || mk::<%s>(%s()) },\n'
                         % (e["name"], tag, e["n"], desc.replace('"', '\\"'), ty, fn))
        out.append("// @case-end %s\n\n" % e["name"])
    # the same enum and variant names once more in a nested module, disabled flags flipped, unit variants only
    if not minimal:
        out.append("pub mod dup {\n    use super::*;\n")
        for e in [e for e in enums if e["generics"] == "none" and 2 <= len(e["variants"]) <= 10][:4]:
            flags = [not v["disabled"] for v in e["variants"]]
            if all(flags):
                flags[0] = False
            out.append("    #[derive(EnumIter, Debug, PartialEq)]\n    pub enum %s {\n" % e["name"])
            for v, d in zip(e["variants"], flags):
                if d:
                    out.append("        #[strum(disabled)]\n")
                out.append("        %s,\n" % v["ident"])
            out.append("    }\n")
            en = [v["ident"] for v, d in zip(e["variants"], flags) if not d]
            out.append("    pub fn exp_%s_dup() -> Vec<%s> {\n        vec![%s]\n    }\n"
                       % (e["name"].lower(), e["name"], ", ".join("%s::%s" % (e["name"], x) for x in en)))
            cases.append('    Case { name: "%s_dup", n: %d, desc: "enum dup::%s (same names as %s, disabled flags flipped, unit variants)", make: || mk::<dup::%s>(dup::exp_%s_dup()) },\n'
                         % (e["name"], len(en), e["name"], e["name"], e["name"], e["name"].lower()))
        out.append("}\n\n")
    # a module in which `Default` and `core` mean something else: the generated code must keep using ::core's
    # (a local `Some`/`Option` is outside the domain on HEAD: size_hint writes an unqualified `Some(t)`)
    if not minimal:
      out.append("pub mod shadow {\n    use strum::EnumIter;\n    pub trait Default { fn default() -> Self; }\n"
               "    impl Default for u8 { fn default() -> u8 { 42 } }\n    impl Default for String { fn default() -> String { String::from(\"shadow\") } }\n"
               "    pub mod core { pub mod default { pub trait Default { fn default() -> Self; } impl Default for u8 { fn default() -> u8 { 43 } } } }\n"
               "    #[derive(EnumIter, Debug, PartialEq)]\n    pub enum Sh0 { A(u8), B { x: String, y: u8 }, #[strum(disabled)] C, D }\n"
               "    pub fn exp_sh0() -> Vec<Sh0> {\n        vec![Sh0::A(::core::default::Default::default()), Sh0::B { x: ::core::default::Default::default(), y: ::core::default::Default::default() }, Sh0::D]\n    }\n"
               "}\n\n")
    if not minimal:
      cases.append('    Case { name: "Sh0_shadow", n: 3, desc: "enum shadow::Sh0 { A(u8) B{String,u8} ~C D } in a module that defines its own Default trait and core module", make: || mk::<shadow::Sh0>(shadow::exp_sh0()) },\n')
    out.append("pub static CASES: &[Case] = &[\n")
    out.extend(cases)
    out.append("];\n")

    probe = []
    probe.append("// @generated by /verif/gen/gen_corpus.py --seed %d (engine c05 Send+Sync probe). Do not edit.\n" % seed)
    probe.append("// Compile-time clause of C05: the iterator type is Send + Sync regardless of the enum's\n")
    probe.append("// type parameters. Instantiated with a !Send + !Sync payload.\n")
    probe.append("use strum_sim::c05::NotSendSync;\n")
    probe.append("fn assert_send_sync<T: Send + Sync>() {}\n")
    probe.append("pub fn probe_all() -> usize {\n    let mut n = 0;\n")
    for p in probes:
        probe.append("    assert_send_sync::<<corpus::%s as strum::IntoEnumIterator>::Iterator>(); n += 1;\n" % p)
    probe.append("    n\n}\n")
    return [("c05.rs", "".join(out)), ("c05_probe.rs", "".join(probe)), ("c05_huge.rs", generate_huge(rng, seed, size))]


def generate_huge(rng, seed, size):
    """Enums around the 2^16 boundary (thorough tier only: each takes about a minute to compile).
    Debug/PartialEq are written by hand (the derives make rustc run out of memory at this size) and the
    expected list is built from the discriminants (repr(u32), implicit discriminants 0..), never by strum."""
    out = []
    out.append("// @generated by /verif/gen/gen_corpus.py --seed %d (engine c05, huge enums, size %s). Do not edit.\n" % (seed, size))
    out.append("use strum::EnumIter;\nuse strum_sim::c05::{mk_core, Case, IterHandle};\n\n")
    cases = []
    sizes = [65535, 65536, 65537] if size == "huge" else []  # every other size gets an empty stub
    for i, n in enumerate(sizes):
        name = "H%d" % i
        # one of them carries disabled variants: at the front, across the 2^8 boundary and at the very end
        disabled = set()
        if i == 1:
            disabled = {0, 255, 256, 40000, n + 3}
        total = n + len(disabled)
        out.append("#[derive(EnumIter, Clone, Copy)]\n#[repr(u32)]\npub enum %s {\n" % name)
        for d in range(total):
            if d in disabled:
                out.append("    #[strum(disabled)]\n")
            out.append("    V%d,\n" % d)
        out.append("}\n")
        out.append("impl PartialEq for %s { fn eq(&self, o: &%s) -> bool { *self as u32 == *o as u32 } }\n" % (name, name))
        out.append("impl core::fmt::Debug for %s { fn fmt(&self, f: &mut core::fmt::Formatter) -> core::fmt::Result { write!(f, \"V{}\", *self as u32) } }\n" % name)
        dis = ", ".join(str(d) for d in sorted(disabled))
        out.append("fn exp_%s() -> Vec<%s> {\n    let disabled: &[u32] = &[%s];\n    (0..%du32).filter(|d| !disabled.contains(d)).map(|d| unsafe { core::mem::transmute::<u32, %s>(d) }).collect()\n}\n"
                   % (name.lower(), name, dis, total, name))
        cases.append('    Case { name: "%s", n: %d, desc: "enum %s { %d variants, %d enabled, disabled at [%s] }", make: || mk_core::<%s>(exp_%s()) },\n'
                     % (name, n, name, total, n, dis, name, name.lower()))
    out.append("pub static CASES: &[Case] = &[\n")
    out.extend(cases)
    out.append("];\n")
    return "".join(out)

"""C17 corpus: enums deriving strum::Display with fixed and placeholder names, plus the
generator-written canonical names and reference `write!` arms."""

import casing
import noise

FIXED_NAMES = [
    "alpha", "Beta", "two words", "héllo", "日本", "ß", "", "{{literal}}", "a{{b", "}}x{{", 'q"uote', "back\\slash",
    "UPPER_CASE", "kebab-name", "x", "1234567890123456", "tab\there", " lead", "trail ", "é", "\U0001F600 smile",
    "a.b.c", "İstanbul", "ﬃ", "0", "-", "long long long long long long name", "mid  dle",
    # longer than 1 KiB
    "kib " + "0123456789abcdef" * 70,
]

PREFIXES = [None, None, None, "", "pre_", "é", "NS::", "p r e "]

DISPLAY_TYPES = {
    "u8": "int", "u16": "int", "i64": "int", "i128": "int", "i8": "int", "usize": "int",
    "String": "str", "&'static str": "str", "Box<str>": "str", "std::borrow::Cow<'static, str>": "str",
    "f64": "float", "f32": "float", "char": "char", "bool": "bool",
}
NODISPLAY_TYPES = ["Option<u8>", "Vec<u8>", "()"]

INNER = {
    "int": ["", "", ":>4", ":03", ":+", ":#x", ":<6", ":^8", ":#010b", ":*^7", ":e", ":?", ":#o", ":é>5", ":+08", ":#?", ":x?", ":X?"],
    "str": ["", "", ":>6", ":.2", ":^7.3", ":*<5", ":é>4", ":?", ":.0", ":10.10", ":#?"],
    "float": ["", "", ":.2", ":8.3", ":+.1", ":e", ":08.2", ":?", ":.0", ":<9.1", ":>+08.3", ":#?", ":E"],
    "char": ["", ":>3", ":?", ":é^5"],
    "bool": ["", ":>6", ":<7", ":?"],
    "flaky": ["", "", ":>6", ":.2"],
}

SEGMENTS = [" ", "", "-", ": ", " é ", "{{", "}}", "{{}}", "x", " and ", "日本", "(", ")", "=", "{{ ", " }}", "\\\"", "%",
            # escaped text that LOOKS like a placeholder (must be printed literally)
            "{{0}}", "{{1}}", "{{0:>4}}", "{{a}}", "{{value:03}}", "{{{{0}}}}", "{{name}} = ", "\n", "\t", "'", "\\"]

FIELD_NAMES = ["a", "b", "name", "value", "x", "count", "_under", "field0", "s", "fmt", "self_", "n1", "ab", "abc", "a1",
               "field1", "na"]


def rs(s):
    # a literal with a double quote (and no backslash, newline or '#') is written as a raw string
    if '"' in s and not any(c in s for c in "\\#\n\t"):
        return 'r#"' + s + '"#'
    out = []
    for ch in s:
        if ch == "\\":
            out.append("\\\\")
        elif ch == '"':
            out.append('\\"')
        elif ch == "\n":
            out.append("\\n")
        elif ch == "\t":
            out.append("\\t")
        elif ch == "é":
            out.append("\\u{e9}")      # the same character, written as an escape in the source
        else:
            out.append(ch)
    return '"' + "".join(out) + '"'


def blen(s):
    return len(s.encode("utf-8"))


def gen_fixed_attrs(rng):
    """returns (attr lines, canonical or None if identifier is canonical)"""
    r = rng.random()
    if r < 0.03:
        return ['#[strum(serialize = "")]'], ""          # the empty string is a legal (and the longest) literal
    if r < 0.05:
        return ['#[strum(to_string = "")]'], ""
    if r < 0.07:
        return ['#[strum(serialize = "")]', '#[strum(serialize = "x")]'], "x"
    if r < 0.10:
        # the VALUE decides which literal is longest, not how long it looks in the source
        return ['#[strum(serialize = "\\t\\t\\t")]', '#[strum(serialize = "four")]'], "four"
    if r < 0.12:
        return ['#[strum(serialize = r##"a"#b"##, serialize = "plain1")]'], "plain1"
    mode = rng.choice(["none", "to_string", "serialize", "serialize", "both"])
    attrs = []
    canonical = None
    sers = []
    if mode in ("serialize", "both"):
        k = rng.randint(1, 3)
        pool = list(FIXED_NAMES)
        rng.shuffle(pool)
        for cand in pool:
            if all(blen(cand) != blen(x) for x in sers):
                sers.append(cand)
            if len(sers) == k:
                break
        # "longest" must be unambiguous: the byte-longest literal is also strictly the longest in
        # characters (the statement does not say which measure, and ties are unspecified)
        while len(sers) > 1:
            top = max(sers, key=blen)
            if all(len(top) > len(x) for x in sers if x is not top):
                break
            sers.remove(min(sers, key=blen))
        # any order (already shuffled)
    ts = None
    if mode in ("to_string", "both"):
        ts = rng.choice(FIXED_NAMES)
    # render: serialize attrs possibly split over several #[strum(..)] and to_string placed anywhere
    items = [("serialize", s) for s in sers]
    if ts is not None:
        items.insert(rng.randrange(0, len(items) + 1), ("to_string", ts))
    if items:
        if rng.random() < 0.5:
            attrs.append("#[strum(%s)]" % ", ".join("%s = %s" % (k, rs(v)) for k, v in items))
        else:
            for k, v in items:
                attrs.append("#[strum(%s = %s)]" % (k, rs(v)))
    if ts is not None:
        canonical = ts
    elif sers:
        canonical = max(sers, key=blen)
    return attrs, canonical


def gen_fields(rng, n, need_display_idx, robust=False, allow_flaky=False):
    if robust:
        # one type for every field of the variant, so that a change that reorders or re-binds fields
        # still type-checks and shows up as a wrong value instead of a build failure
        t = rng.choice(["i64", "String", "u8"])
        return [t] * n
    tys = []
    for i in range(n):
        if i in need_display_idx:
            if allow_flaky and rng.random() < 0.15:
                tys.append("Flaky")
            else:
                tys.append(rng.choice(sorted(DISPLAY_TYPES.keys())))
        else:
            tys.append(rng.choice(sorted(DISPLAY_TYPES.keys()) + NODISPLAY_TYPES))
    return tys


ROBUST = [False]
SHARED_IDENTS = ["ÉcranTitre", "ÜberGross", "ÑandúÁgil", "Http2", "Ipv6Only", "Sha256Sum", "_reserved", "raw__mode", "trailing_",
                 "snake_case_name", "BetaGamma", "Xy"]


def pick_expr(v, k):
    # a field used as a width or precision stays small (format! rejects widths beyond u16 at run time)
    if v.get("cast_usize") and v["tys"][k] == "usize":
        return "(<u8 as Pick>::pick(p[%d]) as usize)" % k
    return "Pick::pick(p[%d])" % k


def gen_literal(rng, refs):
    """refs: list of (placeholder name, type class) that must each appear at least once."""
    order = list(refs)
    rng.shuffle(order)
    # repetitions
    for _ in range(rng.choice([0, 0, 1, 2])):
        order.insert(rng.randrange(0, len(order) + 1), rng.choice(refs))
    parts = [rng.choice(SEGMENTS + ["t", "v"])]
    # a quarter of the literals use bare placeholders only (no nested spec anywhere): the shape on which
    # "simple case" fast paths are taken
    all_bare = rng.random() < 0.25
    for (nm, cls) in order:
        if all_bare:
            parts.append("{%s}" % nm)
            parts.append(rng.choice(SEGMENTS))
            continue
        parts.append("{%s%s}" % (nm, rng.choice(INNER[cls]) if not ROBUST[0] else rng.choice(["", "", ":>4", ":<6", ":^5"])))
        parts.append(rng.choice(SEGMENTS))
    return "".join(parts)


def generate(rng, seed, size):
    target = {"small": 16, "base": 72, "large": 120, "robust": 40, "minimal": 24}[size]
    robust = size in ("robust", "minimal")
    minimal = size == "minimal"
    ROBUST[0] = robust
    out = []
    out.append("// @generated by /verif/gen/gen_corpus.py --seed %d (engine c17, size %s). Do not edit.\n" % (seed, size))
    out.append("use core::fmt::{self, Write};\n")
    out.append("use strum_sim::c17::{Case, Flaky, Subject, VariantInfo};\n")
    out.append("use strum_sim::fmtsim::Pick;\n\n")
    cases = []
    header_len = len(out)
    # the last two enums are systematic: no serialize_all, and every identifier of the per-style enums once more, named by
    # the identifier alone (verbatim). One of them is moved in front of all other enums, one stays behind them: whatever an
    # expansion remembers about `raw__mode` under some style must not reach an enum that has no style (or the reverse).
    n_shared = 0 if minimal else 2
    # and three more hold nothing but NAMED variants whose width / precision come from other fields (`{x:w$.p$}`): strum
    # binds `x` explicitly and rustc captures `w` and `p` from the match arm's bindings. They compile on the pinned tree, the
    # property does not promise that they do, so they are marked `optional`: a tree on which only optional enums stop
    # compiling is decided by the rest of the corpus (see the driver).
    n_optional = 0 if robust else 3
    # and one (in every corpus size) whose literals are NOTHING BUT a placeholder (`{0}`, `{x}`, `{0}{1}`, `{0:}`): the
    # shape on which "just forward to the field" shortcuts are taken; the caller's sign / `#` flags must not reach the field
    n_bare = 1
    # and one whose placeholder fields are of a type whose own Display formats ANOTHER value of the same enum (through
    # `{}` or through to_string()): formatting must be re-entrant - no scratch state shared between an outer and a nested call
    n_reent = 1
    # and a pair under the same serialize_all style in which prefix + identifier of one enum spell the identifier of the other
    # (`prefix = "Raw"` + `Mode` / `RawMode`): names derived for one enum must not be handed to the other
    n_pair = 0 if minimal else 2
    # and one more prefixed enum whose prefix is as long as the pair's ("Raw" / "Xy_"): what is prepended is the enum's own prefix
    n_eqlen = 0 if minimal else 1
    # and one under camelCase with an identifier whose first letter lower-cases to TWO characters (U+0130: i + combining dot).
    # Only the styles that lower-case a word as a whole are inside the reference conversion's domain for such identifiers.
    n_dotted = 0 if minimal else 1
    for ei in range(target + n_shared + n_optional + n_bare + n_reent + n_pair + n_eqlen + n_dotted):
        shared_enum = target <= ei < target + n_shared
        optional_enum = target + n_shared <= ei < target + n_shared + n_optional
        bare_enum = target + n_shared + n_optional <= ei < target + n_shared + n_optional + n_bare
        reent_enum = target + n_shared + n_optional + n_bare <= ei < target + n_shared + n_optional + n_bare + n_reent
        pair_enum = ei - (target + n_shared + n_optional + n_bare + n_reent) if ei >= target + n_shared + n_optional + n_bare + n_reent else None
        eqlen_enum = pair_enum is not None and n_pair <= pair_enum < n_pair + n_eqlen
        dotted_enum = pair_enum is not None and pair_enum >= n_pair + n_eqlen
        if eqlen_enum or dotted_enum:
            pair_enum = None
        ename = "D%d" % ei
        block_start = len(out)
        out.append("// @case-begin %s%s\n" % (ename, " optional" if optional_enum else ""))
        prefix = rng.choice(PREFIXES)
        nvar = rng.randint(1, 7)
        if shared_enum:
            prefix, nvar = None, len(SHARED_IDENTS)
        if optional_enum or bare_enum or reent_enum or pair_enum is not None or eqlen_enum or dotted_enum:
            prefix, nvar = None, 1
        # serialize_all: only together with identifiers whose word splitting is unambiguous (casing.py)
        style = rng.choice(casing.STYLES) if (rng.random() < 0.3 and not minimal) else None
        if shared_enum or optional_enum or bare_enum or reent_enum:
            style = None
        if pair_enum is not None:
            style = "snake_case"
        if eqlen_enum:
            style = None
        if dotted_enum:
            style = "camelCase"
        # systematic part: the first enums cover every serialize_all style, each with a variant named by its
        # (non-ASCII) identifier alone
        forced_style = (not robust) and ei < len(casing.STYLES)
        if robust and not minimal and ei < len(casing.STYLES):
            style = casing.STYLES[ei]   # (the robust corpus: every style once, random identifiers)
        if forced_style:
            style = casing.STYLES[ei]
            nvar = max(nvar, 3)
        simple = list(casing.SIMPLE_IDENTS)
        rng.shuffle(simple)
        lifetime = rng.random() < 0.08 and not robust
        import random as _r
        shared_rng = _r.Random("c17-shared-idents-%d-%d" % (seed, ei))
        variants = []  # dicts
        for vi in range(nvar):
            kind = rng.choice(["unit", "tuple", "named", "tuple", "named"])
            ident = "V%d" % vi if rng.random() < 0.8 else rng.choice(["Alpha", "BetaGamma", "X1", "HTTPServer", "snake_name"]) + str(vi)
            if style is not None:
                ident = simple.pop()
            elif not minimal and shared_rng.random() < 0.2:
                # the same identifiers also occur in enums WITHOUT serialize_all (where they are used verbatim):
                # what one expansion computes for `raw__mode` must not leak into another enum's `raw__mode`
                cand = [i for i in ["raw__mode", "_reserved", "snake_case_name", "Http2", "Sha256Sum", "trailing_", "BetaGamma",
                                    "ÉcranTitre"] if i not in [x["ident"] for x in variants]]
                if cand:
                    ident = shared_rng.choice(cand)
            forced_braces = robust and ei < 9 and vi == 0
            if forced_braces:
                # systematic part of the robust corpus: escaped braces in fixed names of every variant kind
                kind = ["named", "tuple", "unit"][ei % 3]
                disabled = False
            if forced_style and vi in (0, 1, 2):
                ident = [["ÉcranTitre", "ÜberGross", "ÑandúÁgil"], ["Http2", "Ipv6Only", "Sha256Sum"],
                         ["_reserved", "raw__mode", "trailing_"]][vi][ei % 3]
                if ident in simple:
                    simple.remove(ident)
                kind = "unit"
                disabled = False
            disabled = rng.random() < 0.1 and vi > 0
            if forced_braces or (forced_style and vi in (0, 1, 2)):
                disabled = False  # the systematic variants are never disabled
            if shared_enum:
                kind, ident, disabled = "unit", SHARED_IDENTS[vi], False
            v = dict(ident=ident, kind=kind, disabled=disabled, attrs=[], fixed=None, literal=None, tys=[], fnames=[], ref=None)
            brace_name = ["{{literal}}", "a{{b", "}}x{{", "set{{}}", "{{", "}}", "{{0}}", "x{{y}}z", "{{{{"][ei % 9] if forced_braces else None
            if kind == "unit":
                attrs, canon = gen_fixed_attrs(rng)
                if (forced_style and vi in (0, 1, 2)) or shared_enum:
                    attrs, canon = [], None
                if forced_braces:
                    attrs, canon = ["#[strum(to_string = %s)]" % rs(brace_name)], brace_name
                v["attrs"] = attrs
                v["fixed"] = canon if canon is not None else (casing.convert(ident, style) if style else ident)
            else:
                nf = rng.randint(1, 3)
                interp = rng.random() < 0.55 and not disabled and not (not robust and 11 <= ei < 16) and not forced_braces
                if kind == "tuple" and interp and rng.random() < 0.06:
                    nf = rng.randint(11, 13)  # positional indices with two digits
                if kind == "named":
                    fn = list(FIELD_NAMES)
                    rng.shuffle(fn)
                    v["fnames"] = fn[:nf]
                if interp:
                    if kind == "tuple":
                        used = list(range(nf))  # rustc (and therefore strum) rejects unused positional arguments
                    else:
                        k = rng.randint(1, nf)
                        used = sorted(rng.sample(range(nf), k))
                    v["tys"] = gen_fields(rng, nf, used, robust, allow_flaky=(kind == "named"))
                    if lifetime and "&'static str" in v["tys"]:
                        v["tys"] = ["&'a str" if t == "&'static str" else t for t in v["tys"]]
                    refs = []
                    for i in used:
                        t = v["tys"][i]
                        cls = "flaky" if t == "Flaky" else DISPLAY_TYPES["&'static str" if t == "&'a str" else t]
                        refs.append((str(i) if kind == "tuple" else v["fnames"][i], cls))
                    lit = gen_literal(rng, refs)
                    extra = []
                    if rng.random() < 0.25:
                        extra.append("#[strum(serialize = %s)]" % rs(rng.choice(FIXED_NAMES)))
                    v["attrs"] = extra + ["#[strum(to_string = %s)]" % rs(lit)]
                    rng.shuffle(v["attrs"])
                    v["literal"] = lit
                    v["used"] = used
                else:
                    v["tys"] = gen_fields(rng, nf, [], robust)
                    attrs, canon = gen_fixed_attrs(rng)
                    if forced_braces:
                        attrs, canon = ["#[strum(to_string = %s)]" % rs(brace_name)], brace_name
                    v["attrs"] = attrs
                    v["fixed"] = canon if canon is not None else (casing.convert(ident, style) if style else ident)
            variants.append(v)
        # width and precision taken from OTHER fields of the variant (`{0:1$}`, `{x:w$.p$}`): format! binds them by
        # position or by name like any other argument (own PRNG stream: every other choice stays as it was)
        if not robust and ((ei % 5 == 2 and not (11 <= ei < 16) and not shared_enum) or optional_enum):
            import random as _r
            wr = _r.Random("c17-widthargs-%d-%d" % (seed, ei))
            if optional_enum:
                variants = []
            for _ in range(wr.randint(1, 2) if not optional_enum else 4):
                vt = wr.choice(["i64", "String", "f64", "char", "bool", "&'static str", "u8"])
                shape = wr.choice(["t_w", "t_w", "t_wp", "t_p"] if not optional_enum else ["n_w", "n_wp", "n_wp_shuffled"])
                if shape in ("t_wp", "t_p", "n_wp", "n_wp_shuffled"):
                    vt = wr.choice(["String", "f64", "f64", "&'static str"])
                al = wr.choice(["", ">", "^", "<", "\u00e9<", "*^"])
                seg0, seg1 = wr.choice(["", "w ", "{{", "[", "}}"]), wr.choice(["", " e", "}}", "]", "{{1$}}"])
                nv = dict(ident="W%d" % len(variants), kind="tuple" if shape.startswith("t_") else "named", disabled=False, attrs=[],
                          fixed=None, literal=None, tys=[], fnames=[], ref=None, cast_usize=True)
                if shape == "t_w":
                    nv["tys"], body = [vt, "usize"], "{0:%s1$}" % al
                elif shape == "t_wp":
                    nv["tys"], body = [vt, "usize", "usize"], wr.choice(["{0:%s1$.2$}" % al, "{0:%s2$.1$}" % al])
                elif shape == "t_p":
                    nv["tys"], body = [vt, "usize"], "{0:.1$}"
                elif shape == "n_w":
                    nv["tys"], nv["fnames"], body = [vt, "usize"], ["x", "w"], "{x:%sw$}" % al
                elif shape == "n_wp":
                    nv["tys"], nv["fnames"], body = [vt, "usize", "usize"], ["x", "w", "p"], "{x:%sw$.p$}" % al
                else:
                    nv["tys"], nv["fnames"], body = ["usize", vt, "usize"], ["p", "value", "width"], "{value:%swidth$.p$}" % al
                nv["used"] = list(range(len(nv["tys"])))
                nv["literal"] = seg0 + body + seg1
                nv["attrs"] = ["#[strum(to_string = %s)]" % rs(nv["literal"])]
                variants.insert(wr.randrange(0, len(variants) + 1), nv)
        if shared_enum and ei == target:
            # the enum that is moved to the FRONT also carries the bare placeholder literals that come again in the very last
            # enums: a literal seen long ago must still mean what it says
            for (kind, tys, fnames, lit) in [("tuple", ["i64"], [], "{0}"), ("tuple", ["i64", "f64"], [], "{0}{1}"), ("named", ["i64"], ["x"], "{x}")]:
                variants.append(dict(ident="P%d" % len(variants), kind=kind, disabled=False, attrs=["#[strum(to_string = %s)]" % rs(lit)],
                                     fixed=None, literal=lit, tys=tys, fnames=fnames, ref=None, used=list(range(len(tys)))))
        if bare_enum:
            variants = []
            for (kind, tys, fnames, lit) in [("tuple", ["i64"], [], "{0}"), ("tuple", ["f64"], [], "{0}"), ("tuple", ["String"], [], "{0}"),
                                             ("named", ["i64"], ["x"], "{x}"), ("named", ["f64"], ["value"], "{value}"),
                                             ("tuple", ["i64", "f64"], [], "{0}{1}"), ("tuple", ["u8"], [], "{0:}"),
                                             ("named", ["i128", "char"], ["a", "b"], "{b}{a}"), ("tuple", ["f32"], [], "{0}{0}")]:
                variants.append(dict(ident="B%d" % len(variants), kind=kind, disabled=False, attrs=["#[strum(to_string = %s)]" % rs(lit)],
                                     fixed=None, literal=lit, tys=tys, fnames=fnames, ref=None, used=list(range(len(tys)))))
            # ... and fixed names where `to_string` repeats, or is shorter than, a `serialize` literal written before it
            for (kind, tys, fnames, attrs, canon) in [
                    ("unit", [], [], ['#[strum(serialize = "blue", serialize = "navy-blue", to_string = "blue")]'], "blue"),
                    ("tuple", ["u8"], [], ['#[strum(serialize = "a-much-longer-spelling")]', '#[strum(to_string = "short")]'], "short"),
                    ("named", ["u8"], ["n1"], ['#[strum(serialize = "same", to_string = "same", serialize = "s")]'], "same"),
                    ("unit", [], [], ['#[strum(to_string = "ts", serialize = "ts", serialize = "ts-longer")]'], "ts"),
                    # the longest literal is the longest in BYTES AS WRITTEN: doubled braces count twice (a fixed name is never unescaped)
                    ("unit", [], [], ['#[strum(serialize = "{{literal}}", serialize = "UPPER_CASE")]'], "{{literal}}"),
                    ("tuple", ["u8"], [], ['#[strum(serialize = "nine_char")]', '#[strum(serialize = "a{{b}}c{{d")]'], "a{{b}}c{{d")]:
                variants.append(dict(ident="B%d" % len(variants), kind=kind, disabled=False, attrs=attrs, fixed=canon, literal=None,
                                     tys=tys, fnames=fnames, ref=None))
        if dotted_enum:
            variants = []
            for (ident, kind, tys, fnames) in [("\u0130stanbulCity", "unit", [], []), ("\u0130zmir", "tuple", ["u8"], []), ("RedGreenBlue", "named", ["i64"], ["a"])]:
                variants.append(dict(ident=ident, kind=kind, disabled=False, attrs=[], fixed=casing.convert(ident, style), literal=None, tys=tys,
                                     fnames=fnames, ref=None))
        if eqlen_enum:
            variants = []
            for (ident, kind, tys, fnames) in [("TooHot", "unit", [], []), ("Idle", "tuple", ["u8"], []), ("Busy", "named", ["i64"], ["a"])]:
                variants.append(dict(ident=ident, kind=kind, disabled=False, attrs=[], fixed=ident, literal=None, tys=tys, fnames=fnames, ref=None))
        if pair_enum is not None:
            variants = []
            pair_prefix = "Raw" if pair_enum == 0 else None
            for (ident, kind, tys, fnames) in ([("Mode", "unit", [], []), ("BetaGamma", "tuple", ["u8"], []), ("Xy", "named", ["i64"], ["a"])] if pair_enum == 0 else
                                               [("RawMode", "unit", [], []), ("RawBetaGamma", "named", ["u8"], ["b"]), ("RawXy", "tuple", ["i64"], [])]):
                variants.append(dict(ident=ident, kind=kind, disabled=False, attrs=[], fixed=casing.convert(ident, style), literal=None, tys=tys,
                                     fnames=fnames, ref=None))
        if reent_enum:
            variants = []
            w = "Wrap%s" % ename
            for (ident, kind, tys, fnames, lit) in [("Leaf", "tuple", ["u8"], [], "leaf {0}"), ("Node", "tuple", [w, w], [], "node {0} and {1}"),
                                                    ("Deep", "named", [w, "i64"], ["w", "n"], "deep {w}/{n:>4}"),
                                                    ("Twice", "tuple", [w], [], "{0}{0}")]:
                variants.append(dict(ident=ident, kind=kind, disabled=False, attrs=["#[strum(to_string = %s)]" % rs(lit)], fixed=None, literal=lit,
                                     tys=tys, fnames=fnames, ref=None, used=list(range(len(tys)))))
            variants.append(dict(ident="Fixed", kind="unit", disabled=False, attrs=[], fixed="Fixed", literal=None, tys=[], fnames=[], ref=None))
            out.append("#[derive(Debug)]\npub struct %s(pub u8);\n" % w)
            out.append("impl Pick for %s { fn pick(i: u64) -> Self { %s(<u8 as Pick>::pick(i)) } }\n" % (w, w))
            out.append("impl fmt::Display for %s {\n    fn fmt(&self, f: &mut fmt::Formatter<'_>) -> fmt::Result {\n"
                       "        // a nested use of the enum's own Display while an outer one is in progress\n"
                       "        if self.0 %% 4 == 1 && self.0 < 20 { return write!(f, \"<{}>\", %s::Twice(%s(self.0 - 1))); } // the SAME variant, nested\n"
                       "        if self.0 %% 2 == 0 { write!(f, \"[{}]\", %s::Leaf(self.0)) } else { f.write_str(&%s::Leaf(self.0).to_string())?; write!(f, \"{}\", %s::Fixed) }\n"
                       "    }\n}\n" % (w, ename, w, ename, ename, ename))
        # prefixes chosen with the variants in view: a brace in the prefix (only legal when no name is a format
        # literal), or a prefix that equals the beginning of one of the names it is prepended to
        has_interp = any(v["literal"] is not None for v in variants)
        if not robust and 11 <= ei < 16:
            # systematic: enums 11..15 have fixed names only and a prefix with braces in it
            # (an unmatched closing brace, or `{x}`, in the prefix is rejected by the macro: outside the domain)
            prefix = ["{", "{{x", "x{", "{{", "é{"][ei - 11]
        elif pair_enum is not None:
            prefix = pair_prefix
        elif eqlen_enum:
            prefix = "Xy_"
        elif dotted_enum:
            prefix = None
        elif not robust and not shared_enum and not optional_enum and not bare_enum and not reent_enum:
            r = rng.random()
            if r < 0.08 and not has_interp:
                prefix = rng.choice(["{", "{{x", "x{"])
            elif r < 0.2:
                named = [v["fixed"] for v in variants if v["fixed"] and len(v["fixed"]) >= 2]
                if named:
                    nm = rng.choice(named)
                    cand = nm[: rng.randint(1, min(3, len(nm)))]
                    if not has_interp or ("{" not in cand and "}" not in cand):
                        prefix = cand
        uses_lt = any("&'a str" in v["tys"] for v in variants)
        decl = "<'a>" if uses_lt else ""
        inst = "<'static>" if uses_lt else ""
        # a type parameter (never displayed: Display is derived without bounds) in a fixed-name variant
        if not uses_lt and not robust and not shared_enum and not optional_enum and not bare_enum and not reent_enum and pair_enum is None and not eqlen_enum and not dotted_enum and rng.random() < 0.12:
            decl, inst = "<T>", "<u8>"
            gv = dict(ident="Gen%d" % len(variants), kind=rng.choice(["tuple", "named"]), disabled=False, attrs=[], fixed=None,
                      literal=None, tys=["T"], fnames=["gen_field"], ref=None)
            attrs, canon = gen_fixed_attrs(rng)
            gv["attrs"] = attrs
            gv["fixed"] = canon if canon is not None else (casing.convert("Gen", style) if False else gv["ident"])
            if style is not None:
                # keep identifiers in the unambiguous domain when serialize_all is set: give it an explicit name
                gv["attrs"] = ['#[strum(to_string = "generic")]']
                gv["fixed"] = "generic"
            variants.insert(rng.randrange(0, len(variants) + 1), gv)
        # explicit discriminants under an integer repr (legal for variants with fields too)
        discr = None
        if not robust and rng.random() < 0.15:
            vals = rng.sample(range(0, 200), len(variants))
            discr = vals
            out.append("#[repr(u8)]\n")
        if not robust:
            for l in noise.enum_noise(rng):
                out.append(l + "\n")
        out.append("#[derive(strum::Display, Debug)]\n")
        if not robust:
            for l in noise.extra_derives("c17-%d-%s" % (seed, ename), ["strum::AsRefStr", "strum::IntoStaticStr", "strum::EnumCount",
                                                                       "strum::VariantNames", "strum::EnumMessage"]):
                out.append(l + "\n")
            for l in noise.enum_strum_noise(rng):
                out.append(l + "\n")
        if prefix is not None:
            out.append("#[strum(prefix = %s)]\n" % rs(prefix))
        if style is not None:
            out.append("#[strum(serialize_all = %s)]\n" % rs(style))
        out.append("pub enum %s%s {\n" % (ename, decl))
        for v in variants:
            lines = (["#[strum(disabled)]"] if v["disabled"] else []) + list(v["attrs"])
            if not robust:
                lines = noise.fold_disabled(rng, lines)
                lines = noise.trailing_commas(rng, noise.place(rng, lines, noise.variant_noise(rng, 0.25, False)))
                lines = noise.respell("c17-%s-%s" % (ename, v["ident"]), lines)
            for a in lines:
                out.append("    %s\n" % a)
            dsuf = "" if discr is None else " = %d" % discr[variants.index(v)]
            if v["kind"] == "unit":
                out.append("    %s%s,\n" % (v["ident"], dsuf))
            elif v["kind"] == "tuple":
                out.append("    %s(%s)%s,\n" % (v["ident"], ", ".join(v["tys"]), dsuf))
            else:
                out.append("    %s { %s }%s,\n" % (v["ident"], ", ".join("%s: %s" % (n, t) for n, t in zip(v["fnames"], v["tys"])), dsuf))
        out.append("}\n")
        sel = [v for v in variants if not v["disabled"]]
        pfx = prefix or ""
        # reference arms
        out.append("impl Subject for %s%s {\n" % (ename, inst))
        out.append("    fn display(&self) -> &dyn fmt::Display { self }\n")
        out.append("    fn debug(&self) -> String { format!(\"{:?}\", self) }\n")
        out.append("    fn direct_to_string(&self) -> String { self.to_string() }\n")
        out.append("    #[allow(unused_variables, unreachable_patterns)]\n")
        out.append("    fn ref_fmt(&self, __sink: &mut dyn Write) -> fmt::Result {\n        match self {\n")
        for v in sel:
            if v["literal"] is None:
                continue
            lit = rs(pfx + v["literal"])
            if v["kind"] == "tuple":
                binds = ", ".join("f%d" % i for i in range(len(v["tys"])))
                out.append("            %s::%s(%s) => write!(__sink, %s, %s),\n" % (ename, v["ident"], binds, lit, binds))
            else:
                used_names = [v["fnames"][i] for i in v["used"]]
                out.append("            %s::%s { %s, .. } => write!(__sink, %s, %s),\n"
                           % (ename, v["ident"], ", ".join(used_names), lit, ", ".join("%s = %s" % (n, n) for n in used_names)))
        out.append("            _ => Err(fmt::Error),\n        }\n    }\n}\n")
        # constructor
        out.append("fn make_%s(v: usize, p: &[u64]) -> Box<dyn Subject> {\n    Box::new(match v {\n" % ename.lower())
        for i, v in enumerate(sel):
            if v["kind"] == "unit":
                val = "%s::%s" % (ename, v["ident"])
            elif v["kind"] == "tuple":
                val = "%s::%s(%s)" % (ename, v["ident"], ", ".join(pick_expr(v, k) for k in range(len(v["tys"]))))
            else:
                val = "%s::%s { %s }" % (ename, v["ident"], ", ".join("%s: %s" % (n, pick_expr(v, k)) for k, n in enumerate(v["fnames"])))
            out.append("        %d => %s,\n" % (i, val))
        out.append("        _ => unreachable!(),\n    })\n}\n")
        out.append("static VARIANTS_%s: &[VariantInfo] = &[\n" % ename.upper())
        for v in sel:
            fixed = "Some(%s)" % rs(pfx + v["fixed"]) if v["fixed"] is not None else "None"
            lit = "Some(%s)" % rs(pfx + v["literal"]) if v["literal"] is not None else "None"
            out.append('    VariantInfo { ident: "%s", kind: "%s", fixed: %s, literal: %s, nfields: %d },\n'
                       % (v["ident"], v["kind"], fixed, lit, len(v["tys"])))
        out.append("];\n\n")
        desc = "enum %s prefix=%s serialize_all=%s: %s" % (ename, repr(prefix), style, "; ".join(
            "%s%s[%s]%s" % ("~" if v["disabled"] else "", v["ident"], v["kind"],
                            ("=" + repr(v["fixed"])) if v["fixed"] is not None else (" lit=" + repr(v["literal"])))
            for v in variants))
        cases.append('    Case { name: "%s", desc: %s, variants: VARIANTS_%s, make: make_%s },\n'
                     % (ename, rs(desc), ename.upper(), ename.lower()))
        out.append("// @case-end %s\n\n" % ename)
        if ei == target:
            block = out[block_start:]
            del out[block_start:]
            out[header_len:header_len] = block
    out.append("pub static CASES: &[Case] = &[\n")
    out.extend(cases)
    out.append("];\n")
    return [("c17.rs", "".join(out))]

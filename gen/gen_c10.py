def generate(rng, seed, size):
    return []

"""Attribute noise: attributes that must not change what a strum derive generates (doc comments, lint
attributes, cfg_attr that is always on, strum attributes that belong to OTHER derives)."""

# size "minimal": no noise at all, `disabled` always on its own
MINIMAL = [False]

DOCS = ["/// A documented variant.", "/// Two-line", "///  indented doc with `code` and {braces}", "/// \"quoted\" text",
        "/** block doc */", "#[doc = \"doc attribute\"]"]
LINTS = ["#[allow(dead_code)]", "#[allow(unused, clippy::all)]", "#[cfg_attr(all(), allow(unused_variables))]", "#[cfg(all())]",
         "#[cfg(not(any()))]", "#[deprecated]", "#[deprecated(note = \"use something else\")]"]
# strum attributes that concern other derives only (EnumMessage, EnumProperty); legal on any variant
OTHER_STRUM = ['#[strum(message = "a message")]', '#[strum(detailed_message = "details {0} {x}")]', '#[strum(props(key = "value", n = 3))]',
               '#[strum(props(flag = true))]',
               # property KEYS that merely look like strum keywords: they are data, not switches
               '#[strum(props(disabled = "true", default = "x"))]', '#[strum(props(transparent = "no", serialize = "s", to_string = "t"))]']


def variant_noise(rng, p=0.3, other_strum=True, existing=""):
    """returns attribute lines to put in front of a variant (possibly empty); single-use strum
    attributes (message, detailed_message) are never repeated (`existing`: attributes already there)"""
    out = []
    if MINIMAL[0]:
        return out
    if rng.random() < p:
        k = rng.choice([1, 1, 2, 3])
        for _ in range(k):
            pool = DOCS + DOCS + LINTS + (OTHER_STRUM if other_strum else [])
            c = rng.choice(pool)
            key = None
            if "detailed_message" in c:
                key = "detailed_message"
            elif "message" in c:
                key = "strum(message"
            if "deprecated" in c:
                key = "#[deprecated"
            if key and (key in existing or any(key in o for o in out)):
                continue
            out.append(c)
    return out


def enum_noise(rng, p=0.3):
    """attribute lines to put BEFORE the #[derive(..)] line of an enum (helper attributes may not precede it)"""
    out = []
    if MINIMAL[0]:
        return out
    if rng.random() < p:
        out.append(rng.choice(["/// A documented enum.", "#[allow(dead_code)]", "#[allow(clippy::enum_variant_names)]",
                               "#[cfg_attr(all(), allow(unused))]"]))
    return out


def enum_strum_noise(rng, p=0.12):
    """strum attributes to put AFTER the derive line: the crate path override pointing at the crate's real
    name is a no-op"""
    if not MINIMAL[0] and rng.random() < p:
        return [rng.choice(['#[strum(crate = "strum")]', '#[strum(crate = "::strum")]'])]
    return []


def trailing_commas(rng, lines, p=0.15):
    """`#[strum(a, b,)]`: a trailing comma inside the list is legal"""
    out = []
    if MINIMAL[0]:
        return list(lines)
    for l in lines:
        if l.startswith("#[strum(") and l.endswith(")]") and not l.endswith(",)]") and rng.random() < p:
            l = l[:-2] + ",)]"
        out.append(l)
    return out


def place(rng, existing, extra):
    """interleaves `extra` attribute lines at random positions among `existing` ones"""
    out = list(existing)
    for e in extra:
        out.insert(rng.randrange(0, len(out) + 1), e)
    return out


def fold_disabled(rng, lines):
    """`disabled` need not stand alone: half of the time it is merged into another #[strum(...)] list of the same
    variant (before or after the other entries), or gets a neighbour of its own."""
    if MINIMAL[0] or "#[strum(disabled)]" not in lines:
        return lines
    r = rng.random()
    if r < 0.15:
        # a strum attribute, something foreign, then `disabled`: helper attributes need not be contiguous
        j = lines.index("#[strum(disabled)]")
        return lines[:j] + ['#[strum(props(before = "x"))]', "/// a doc comment in between", "#[strum(disabled)]"] + lines[j + 1:]
    if r < 0.25:
        j = lines.index("#[strum(disabled)]")
        return lines[:j] + ["#[strum(disabled)]", "#[allow(dead_code)]", '#[strum(props(after = "x"))]'] + lines[j + 1:]
    if r < 0.5:
        return lines
    others = [i for i, l in enumerate(lines) if l.startswith("#[strum(") and l != "#[strum(disabled)]" and l.endswith(")]")]
    out = list(lines)
    if others:
        i = rng.choice(others)
        inner = out[i][len("#[strum("):-2]
        out[i] = "#[strum(disabled, %s)]" % inner if rng.random() < 0.5 else "#[strum(%s, disabled)]" % inner
        out.remove("#[strum(disabled)]")
    else:
        j = out.index("#[strum(disabled)]")
        out[j] = rng.choice(['#[strum(disabled, props(k = "v"))]', '#[strum(props(k = "v"), disabled)]', '#[strum(disabled,)]',
                             '#[strum(props(gone = true), disabled)]'])
    return out


def extra_derives(key, candidates, p=0.3):
    """a second #[derive(..)] line with other strum derives on the same enum (own PRNG stream keyed by `key`, so adding
    it leaves every other generated choice as it was): what one derive generates must not depend on its neighbours"""
    if MINIMAL[0]:
        return []
    import random
    r = random.Random("extra-derives-" + key)
    if r.random() >= p:
        return []
    k = r.randint(1, min(3, len(candidates)))
    picked = r.sample(candidates, k)
    return ["#[derive(%s)]" % ", ".join(picked)]


# switches and names that steer OTHER derives (EnumString, Display, AsRefStr): to EnumIter and EnumTable a variant that
# carries them is a variant like any other
FOREIGN_SWITCHES = ['#[strum(default)]', '#[strum(ascii_case_insensitive)]', '#[strum(ascii_case_insensitive = false)]',
                    '#[strum(serialize = "zz")]', '#[strum(to_string = "tt")]', '#[strum(default, ascii_case_insensitive)]']


def foreign_switch(key, p=0.1, allow_names=True):
    """own PRNG stream keyed by `key`: [] or one attribute line"""
    if MINIMAL[0]:
        return []
    import random
    r = random.Random("foreign-switch-" + key)
    if r.random() >= p:
        return []
    pool = FOREIGN_SWITCHES if allow_names else [x for x in FOREIGN_SWITCHES if "serialize" not in x and "to_string" not in x]
    return [r.choice(pool)]


def respell(key, lines, p=0.2):
    """other legal spellings around `disabled` (own PRNG stream keyed by `key`): the attribute's delimiters may be brackets
    or braces (`#[strum[disabled]]`, `#[strum{disabled}]`: syn's parse_args accepts all three), and an EMPTY `props()` may
    precede it, in the same list or in an attribute of its own"""
    if MINIMAL[0] or not any("disabled" in l and l.startswith("#[strum(") and "props(disabled" not in l for l in lines):
        return lines
    import random
    r = random.Random("respell-" + key)
    if r.random() >= p:
        return lines
    out = []
    how = r.choice(["brackets", "braces", "empty_props_before", "empty_props_inside", "empty_props_attr_first"])
    done = False
    for l in lines:
        if done or not (l.startswith("#[strum(") and "disabled" in l and "props(disabled" not in l and l.endswith(")]")):
            out.append(l)
            continue
        inner = l[len("#[strum("):-2]
        if how == "brackets":
            out.append("#[strum[%s]]" % inner)
        elif how == "braces":
            out.append("#[strum{%s}]" % inner)
        elif how == "empty_props_before":
            out.append("#[strum(props())]")
            out.append(l)
        elif how == "empty_props_inside":
            out.append("#[strum(props(), %s)]" % inner)
        else:
            out.insert(0, "#[strum(props())]")
            out.append(l)
        done = True
    return out


VISIBILITIES = ["pub", "pub", "pub(crate)", "", "pub(self)", "pub(in crate::corpus)", "pub(super)"]


def visibility(key, p=0.35):
    """the enum's visibility (the generated iterator / table type inherits it); own PRNG stream. Everything that names the
    enum lives in the same module, so a private enum works as well as a public one."""
    if MINIMAL[0]:
        return "pub"
    import random
    r = random.Random("visibility-" + key)
    if r.random() >= p:
        return "pub"
    return r.choice(VISIBILITIES)


RAW_IDENTS = ["r#type", "r#match", "r#Move", "r#fn", "r#Box", "r#loop"]


def raw_ident(key, p=0.15):
    """a raw identifier to use as a variant name, or None (own PRNG stream)"""
    if MINIMAL[0]:
        return None
    import random
    r = random.Random("raw-ident-" + key)
    if r.random() >= p:
        return None
    return r.choice(RAW_IDENTS)

"""serialize_all conversions for a deliberately tiny identifier domain: plain PascalCase identifiers
made of alphabetic words (no digits, acronyms or underscores), where word splitting is unambiguous.
The corpora only combine serialize_all with identifiers from SIMPLE_IDENTS."""
import re

SIMPLE_IDENTS = ["Alpha", "BetaGamma", "RedGreenBlue", "Xy", "DeltaEcho", "FoxtrotGolfHotel", "India", "JulietKilo",
                 "LimaMike", "November", "OscarPapa", "QuebecRomeoSierra", "Tango", "UniformVictor", "WhiskeyXray", "YankeeZulu",
                 # non-ASCII letters whose case mapping is one-to-one (no ß, no dotted/dotless i)
                 "ÉcranTitre", "ÜberGross", "ÑandúÁgil",
                 # digits: never a word boundary of their own; an upper-case letter after a digit starts a word
                 "Http2", "Ipv6Only", "Sha256Sum",
                 # underscores separate words and never survive a word-based style (empty pieces vanish);
                 # lowercase / UPPERCASE only change letter case and keep them
                 "_reserved", "raw__mode", "trailing_", "snake_case_name"]

STYLES = ["camelCase", "PascalCase", "kebab-case", "snake_case", "SCREAMING_SNAKE_CASE", "SCREAMING-KEBAB-CASE",
          "lowercase", "UPPERCASE", "title_case", "mixed_case", "Train-Case"]


def words(ident):
    w = []
    for piece in ident.split("_"):
        cur = []
        for ch in piece:
            assert ch.isalpha() or (ch.isdigit() and cur), ident
            if ch.isupper() or not cur:
                cur.append(ch)
            else:
                cur[-1] += ch
        w.extend(cur)
    assert "".join(w) == ident.replace("_", ""), ident
    return w


def convert(ident, style):
    w = words(ident)
    lo = [x.lower() for x in w]
    if style in ("camelCase", "mixed_case"):
        return lo[0] + "".join(x.capitalize() for x in lo[1:])
    if style == "PascalCase":
        return "".join(x.capitalize() for x in lo)
    if style == "kebab-case":
        return "-".join(lo)
    if style == "snake_case":
        return "_".join(lo)
    if style == "SCREAMING_SNAKE_CASE":
        return "_".join(x.upper() for x in lo)
    if style == "SCREAMING-KEBAB-CASE":
        return "-".join(x.upper() for x in lo)
    if style == "lowercase":
        return ident.lower()
    if style == "UPPERCASE":
        return ident.upper()
    if style == "title_case":
        return " ".join(x.capitalize() for x in lo)
    if style == "Train-Case":
        return "-".join(x.capitalize() for x in lo)
    raise ValueError(style)

//! C05, thread configuration (thorough tier only): the derived iterator under `shuttle`'s
//! controlled scheduler. Three workers pull from one `Arc<Mutex<Iter>>`, a clone is taken under
//! the lock and moved to a freshly spawned thread that drains it, and an `Arc<Iter>` is read
//! (`len`, `clone`) from all threads. The history, stamped with a global sequence number under
//! the lock, is checked against the two-cursor model in lock order, plus exactly-once hand-out.
//!
//! The iterator has no interior mutability, so this configuration mostly confirms that thread
//! interleavings produce the same histories the single-threaded scheduler explores; its content is
//! that the scenario compiles (`Send`, `Sync` with a `!Send + !Sync` type argument) and that clones
//! moved across threads stay independent.
use shuttle::rand::Rng;
use shuttle::scheduler::{PctScheduler, RandomScheduler};
use shuttle::sync::{Arc, Mutex};
use shuttle::{thread, Config, FailurePersistence, Runner};
use std::collections::BTreeSet;
use std::rc::Rc;
use std::sync::atomic::{AtomicU64, Ordering};
use strum::{EnumIter, IntoEnumIterator};

#[derive(Debug, PartialEq)]
pub struct NotSendSync(pub *const u8, pub Rc<u8>);
impl Default for NotSendSync {
    fn default() -> Self {
        NotSendSync(std::ptr::null(), Rc::new(0))
    }
}

#[derive(EnumIter, Debug, PartialEq)]
pub enum G<T: Default> {
    A,
    B(T),
    #[strum(disabled)]
    Hidden(u8),
    C { x: T, y: u8 },
    D,
    E(u8, T),
}

#[derive(EnumIter, Debug, PartialEq, Clone, Copy)]
pub enum Plain {
    P0,
    #[strum(disabled)]
    Off,
    P1,
    P2,
    P3,
    P4,
    P5,
    P6,
}

fn g_expected() -> Vec<G<NotSendSync>> {
    vec![G::A, G::B(Default::default()), G::C { x: Default::default(), y: 0 }, G::D, G::E(0, Default::default())]
}
fn plain_expected() -> Vec<Plain> {
    vec![Plain::P0, Plain::P1, Plain::P2, Plain::P3, Plain::P4, Plain::P5, Plain::P6]
}

#[derive(Clone, Debug)]
struct Model {
    lo: usize,
    hi: usize,
}
impl Iterator for Model {
    type Item = usize;
    fn next(&mut self) -> Option<usize> {
        if self.lo < self.hi {
            self.lo += 1;
            Some(self.lo - 1)
        } else {
            None
        }
    }
}
impl DoubleEndedIterator for Model {
    fn next_back(&mut self) -> Option<usize> {
        if self.lo < self.hi {
            self.hi -= 1;
            Some(self.hi)
        } else {
            None
        }
    }
}

static DISTINCT: std::sync::Mutex<BTreeSet<u64>> = std::sync::Mutex::new(BTreeSet::new());
static ITERATIONS: AtomicU64 = AtomicU64::new(0);
static EVENTS: AtomicU64 = AtomicU64::new(0);
static CLONES_MOVED: AtomicU64 = AtomicU64::new(0);

fn fnv(h: u64, v: u64) -> u64 {
    let mut h = h;
    for b in v.to_le_bytes() {
        h ^= b as u64;
        h = h.wrapping_mul(0x0000_0100_0000_01B3);
    }
    h
}

/// One scenario over an enum type. `expected` builds the generator-written item list inside the
/// calling thread (items are `!Send`, they never leave the thread that produced them).
fn scenario<E>(expected: fn() -> Vec<E>)
where
    E: IntoEnumIterator + PartialEq + std::fmt::Debug + 'static,
    E::Iterator: Send + Sync + 'static,
{
    let n = expected().len();
    // shared mutable iterator + the model + the history, all under one lock
    struct Shared<I> {
        it: I,
        model: Model,
        seq: u64,
        history: Vec<(u64, u8, usize, Option<usize>)>,
    }
    let shared = Arc::new(Mutex::new(Shared { it: E::iter(), model: Model { lo: 0, hi: n }, seq: 0, history: Vec::new() }));
    // shared read-only iterator (Sync): advanced a little first
    let mut ro = E::iter();
    let ro_front = shuttle::rand::thread_rng().gen_range(0..=n.min(2));
    for _ in 0..ro_front {
        ro.next();
    }
    let ro = Arc::new(ro);
    let mut handles = Vec::new();
    for w in 0..3u8 {
        let shared = shared.clone();
        let ro = ro.clone();
        handles.push(thread::spawn(move || {
            let exp = expected();
            let id = |x: Option<E>| -> Option<usize> { x.map(|v| exp.iter().position(|e| *e == v).expect("alien item")) };
            let mut rng = shuttle::rand::thread_rng();
            let steps = rng.gen_range(1..=4);
            let mut spawned = Vec::new();
            for _ in 0..steps {
                let op: u8 = rng.gen_range(0..5);
                let k: usize = match rng.gen_range(0..6) {
                    0 => usize::MAX,
                    1 => n,
                    _ => rng.gen_range(0..3),
                };
                {
                    let mut g = shared.lock().unwrap();
                    let (got, want) = match op {
                        0 => (id(g.it.next()), g.model.next()),
                        1 => (id(g.it.next_back()), g.model.next_back()),
                        2 => (id(g.it.nth(k)), g.model.nth(k)),
                        3 => (id(g.it.nth_back(k)), g.model.nth_back(k)),
                        _ => {
                            // take a clone under the lock and move it to a fresh thread that drains it
                            let c = g.it.clone();
                            let snap = g.model.clone();
                            CLONES_MOVED.fetch_add(1, Ordering::Relaxed);
                            spawned.push(thread::spawn(move || {
                                let exp = expected();
                                let got: Vec<usize> = c.map(|v| exp.iter().position(|e| *e == v).expect("alien item")).collect();
                                let want: Vec<usize> = snap.collect();
                                assert_eq!(got, want, "a clone moved to another thread did not drain the snapshot it was taken from");
                            }));
                            (None, None)
                        }
                    };
                    assert_eq!(got, want, "worker {} op {} k {}: result differs from the model in lock order", w, op, k);
                    let remaining = g.model.hi - g.model.lo;
                    assert_eq!(g.it.len(), remaining, "len after op {}", op);
                    g.seq += 1;
                    let s = g.seq;
                    g.history.push((s, op, k, got));
                    EVENTS.fetch_add(1, Ordering::Relaxed);
                }
                // concurrent reads of the shared immutable iterator
                assert_eq!(ro.len(), n - ro_front, "shared &Iter len changed");
                let mut c = (*ro).clone();
                assert_eq!(id(c.next()), if ro_front < n { Some(ro_front) } else { None });
                thread::sleep(std::time::Duration::from_millis(0));
            }
            for s in spawned {
                s.join().unwrap();
            }
        }));
    }
    for h in handles {
        h.join().unwrap();
    }
    let g = shared.lock().unwrap();
    // exactly-once hand-out across workers
    let mut seen = BTreeSet::new();
    let mut hh = 0xcbf2_9ce4_8422_2325u64;
    for (s, op, k, got) in &g.history {
        hh = fnv(fnv(fnv(fnv(hh, *s), *op as u64), *k as u64), got.map(|x| x as u64 + 1).unwrap_or(0));
        if let Some(i) = got {
            assert!(seen.insert(*i), "item #{} handed out twice", i);
        }
    }
    // nth(k) consumes the items it skips, so handed-out + remaining can be less than n, never more
    assert!(seen.len() + (g.model.hi - g.model.lo) <= n, "more items handed out than consumed");
    DISTINCT.lock().unwrap().insert(hh);
    ITERATIONS.fetch_add(1, Ordering::Relaxed);
}

fn both() {
    scenario::<G<NotSendSync>>(g_expected);
    scenario::<Plain>(plain_expected);
}

fn json_escape(s: &str) -> String {
    s.replace('\\', "\\\\").replace('"', "\\\"").replace('\n', "\\n")
}

fn main() {
    let args: Vec<String> = std::env::args().collect();
    let mut seed: u64 = 1;
    let mut iterations: usize = 5000;
    let mut partial: Option<String> = None;
    let mut replay: Option<String> = None;
    let mut replay_dir = "/verif/replays".to_string();
    let mut i = 1;
    while i < args.len() {
        match args[i].as_str() {
            "--seed" => {
                seed = args[i + 1].parse().unwrap();
                i += 1
            }
            "--iterations" => {
                iterations = args[i + 1].parse().unwrap();
                i += 1
            }
            "--partial" => {
                partial = Some(args[i + 1].clone());
                i += 1
            }
            "--replay" => {
                replay = Some(args[i + 1].clone());
                i += 1
            }
            "--replay-dir" => {
                replay_dir = args[i + 1].clone();
                i += 1
            }
            o => {
                eprintln!("unknown argument {}", o);
                std::process::exit(2)
            }
        }
        i += 1;
    }
    if let Some(path) = replay {
        // the replay file is JSON with a "schedule" string field (written below)
        let text = std::fs::read_to_string(&path).expect("replay file");
        let key = "\"schedule\": \"";
        let st = text.find(key).expect("schedule field") + key.len();
        let en = st + text[st..].find('"').expect("end of schedule");
        let sched = text[st..en].replace("\\n", "\n");
        let r = std::panic::catch_unwind(|| shuttle::replay(both, &sched));
        match r {
            Err(_) => {
                println!("REPLAY-FAILS oracle=thread_history signature=threads:history ");
                std::process::exit(1)
            }
            Ok(()) => {
                println!("REPLAY-PASSES");
                std::process::exit(0)
            }
        }
    }
    let t0 = std::time::Instant::now();
    let sched_dir = format!("{}/tmp/shuttle-{}", replay_dir, seed);
    let _ = std::fs::remove_dir_all(&sched_dir);
    std::fs::create_dir_all(&sched_dir).unwrap();
    let mut failed: Option<String> = None;
    for (name, pct) in [("random", false), ("pct", true)] {
        let mut cfg = Config::new();
        cfg.failure_persistence = FailurePersistence::File(Some(sched_dir.clone().into()));
        let r = std::panic::catch_unwind(|| {
            if pct {
                Runner::new(PctScheduler::new_from_seed(seed, 3, iterations / 2), cfg).run(both)
            } else {
                Runner::new(RandomScheduler::new_from_seed(seed, iterations / 2), cfg).run(both)
            }
        });
        if r.is_err() {
            failed = Some(name.to_string());
            break;
        }
    }
    let wall = t0.elapsed().as_secs_f64();
    let mut candidates = String::new();
    if let Some(which) = &failed {
        // shuttle persisted the failing schedule as schedule000.txt
        let sched = std::fs::read_to_string(format!("{}/schedule000.txt", sched_dir)).unwrap_or_default();
        let fname = format!("{}/C05-threads-{}-{}.json", replay_dir, seed, which);
        let body = format!(
            "{{\n \"property\": \"C05\",\n \"kind\": \"threads\",\n \"oracle\": \"thread_history\",\n \"signature\": \"threads:history\",\n \"seed\": {},\n \"scheduler\": \"{}\",\n \"schedule\": \"{}\"\n}}\n",
            seed,
            which,
            json_escape(sched.trim())
        );
        std::fs::write(&fname, body).unwrap();
        println!("CANDIDATE property=C05 signature=threads:history oracle=thread_history replay={}", fname);
        candidates = format!("{{\"signature\": \"threads:history\", \"oracle\": \"thread_history\", \"replay\": \"{}\", \"case\": \"threads\"}}", fname);
    }
    let _ = std::fs::remove_dir_all(&sched_dir);
    let distinct = DISTINCT.lock().unwrap().len();
    let its = ITERATIONS.load(Ordering::Relaxed);
    println!("sim_threads seed={} scenario_executions={} events={} distinct_lock_order_histories={} clones_moved={} failed={:?} wall={:.2}s", seed, its, EVENTS.load(Ordering::Relaxed), distinct, CLONES_MOVED.load(Ordering::Relaxed), failed, wall);
    if let Some(p) = partial {
        let body = format!(
            "{{\n \"property\": \"C05\", \"engine\": \"sim_threads\", \"profile\": \"release\", \"corpus\": \"threads\", \"mode\": \"shuttle random+pct\",\n \"seed\": {}, \"runs\": {}, \"steps\": {}, \"distinct_nontrivial_traces\": {}, \"state_cover\": 0, \"log_hash\": \"n/a\", \"wall_s\": {:.3},\n \"counters\": {{\"threads_scenario_executions\": {}, \"threads_clones_moved_across_threads\": {}, \"threads_locked_events\": {}}},\n \"violation_total\": {}, \"candidates\": [{}], \"samples\": [],\n \"extra\": {{\"schedulers\": [\"RandomScheduler\", \"PctScheduler(depth 3)\"], \"workers\": 3, \"enums\": [\"G<NotSendSync>\", \"Plain\"]}}\n}}\n",
            seed, its, EVENTS.load(Ordering::Relaxed), distinct, wall, its, CLONES_MOVED.load(Ordering::Relaxed), EVENTS.load(Ordering::Relaxed), if failed.is_some() { 1 } else { 0 }, candidates
        );
        std::fs::write(p, body).unwrap();
    }
    std::process::exit(if failed.is_some() { 1 } else { 0 })
}

fn main(){}

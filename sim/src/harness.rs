//! Shared plumbing: CLI, deterministic sharding of runs over workers, stats merging,
//! violation reports, minimisation, replay files, partial-evidence output.
use crate::json::Json;
use std::collections::{BTreeMap, BTreeSet};
use std::panic::{self, AssertUnwindSafe};
use std::sync::atomic::{AtomicU64, Ordering};
use std::sync::Mutex;
use std::time::Instant;

pub const PROFILE: &str = if cfg!(debug_assertions) { "debug" } else { "release" };

pub fn fnv1a(h: u64, bytes: &[u8]) -> u64 {
    let mut h = h;
    for b in bytes {
        h ^= *b as u64;
        h = h.wrapping_mul(0x0000_0100_0000_01B3);
    }
    h
}
pub const FNV_INIT: u64 = 0xcbf2_9ce4_8422_2325;

#[inline]
pub fn mix(h: u64, v: u64) -> u64 {
    fnv1a(h, &v.to_le_bytes())
}

/// Running hash of a run's event log. Every observable event of a run is folded in, so two
/// executions of the same (seed, run) must produce the same value or the simulator is not
/// deterministic (checked by selftest.sh).
#[derive(Clone, Copy)]
pub struct TraceHash(pub u64);
impl TraceHash {
    pub fn new() -> Self {
        TraceHash(FNV_INIT)
    }
    #[inline]
    pub fn u(&mut self, v: u64) {
        self.0 = mix(self.0, v);
    }
    #[inline]
    pub fn s(&mut self, s: &str) {
        self.0 = fnv1a(self.0, s.as_bytes());
        self.0 = mix(self.0, s.len() as u64);
    }
}

#[derive(Clone, Debug)]
pub struct Cli {
    pub seed: u64,
    pub runs: u64,
    pub workers: usize,
    pub tier: String,
    pub partial: Option<String>,
    pub replay: Option<String>,
    pub replay_dir: String,
    pub corpus_tag: String,
    pub hashlog: Option<String>,
    pub mode: String,
    pub no_minimise: bool,
}

pub fn parse_cli() -> Cli {
    let mut c = Cli {
        seed: std::env::var("VERIF_SEED").ok().and_then(|s| s.parse().ok()).unwrap_or(1),
        runs: 1000,
        workers: std::thread::available_parallelism().map(|n| n.get()).unwrap_or(4),
        tier: "quick".into(),
        partial: None,
        replay: None,
        replay_dir: "/verif/replays".into(),
        corpus_tag: "base".into(),
        hashlog: None,
        mode: "all".into(),
        no_minimise: false,
    };
    let a: Vec<String> = std::env::args().collect();
    let mut i = 1;
    while i < a.len() {
        let need = |i: usize| -> String {
            a.get(i + 1).cloned().unwrap_or_else(|| {
                eprintln!("missing value for {}", a[i]);
                std::process::exit(2)
            })
        };
        match a[i].as_str() {
            "--seed" => {
                c.seed = need(i).parse().unwrap_or_else(|_| std::process::exit(2));
                i += 1;
            }
            "--runs" => {
                c.runs = need(i).parse().unwrap_or_else(|_| std::process::exit(2));
                i += 1;
            }
            "--workers" => {
                c.workers = need(i).parse().unwrap_or_else(|_| std::process::exit(2));
                i += 1;
            }
            "--tier" => {
                c.tier = need(i);
                i += 1;
            }
            "--partial" => {
                c.partial = Some(need(i));
                i += 1;
            }
            "--replay" => {
                c.replay = Some(need(i));
                i += 1;
            }
            "--replay-dir" => {
                c.replay_dir = need(i);
                i += 1;
            }
            "--corpus-tag" => {
                c.corpus_tag = need(i);
                i += 1;
            }
            "--hashlog" => {
                c.hashlog = Some(need(i));
                i += 1;
            }
            "--mode" => {
                c.mode = need(i);
                i += 1;
            }
            "--no-minimise" => c.no_minimise = true,
            other => {
                eprintln!("unknown argument {}", other);
                std::process::exit(2);
            }
        }
        i += 1;
    }
    if c.workers == 0 {
        c.workers = 1;
    }
    c
}

#[derive(Clone, Debug)]
pub struct Violation {
    pub oracle: String,
    /// Coarser than the trace, finer than the oracle: used to group duplicates and to match
    /// entries of known_findings.json.
    pub signature: String,
    pub run: u64,
    pub case: String,
    pub script: Vec<String>,
    pub expected: String,
    pub observed: String,
}

pub struct Stats {
    pub names: &'static [&'static str],
    pub counters: Vec<u64>,
    pub cover: BTreeSet<u64>,
    pub hashes: Vec<u64>,
    pub runs: u64,
    pub steps: u64,
    pub log_hash: u64,
    pub samples: Vec<Json>,
    pub violations: BTreeMap<String, Violation>,
    pub violation_total: u64,
    pub hashlog: Vec<(u64, u64)>,
    pub keep_hashlog: bool,
}

impl Stats {
    pub fn new(names: &'static [&'static str]) -> Stats {
        Stats {
            names,
            counters: vec![0; names.len()],
            cover: BTreeSet::new(),
            hashes: Vec::new(),
            runs: 0,
            steps: 0,
            log_hash: FNV_INIT,
            samples: Vec::new(),
            violations: BTreeMap::new(),
            violation_total: 0,
            hashlog: Vec::new(),
            keep_hashlog: false,
        }
    }
    #[inline]
    pub fn hit(&mut self, idx: usize) {
        self.counters[idx] += 1;
    }
    #[inline]
    pub fn add(&mut self, idx: usize, n: u64) {
        self.counters[idx] += n;
    }
    pub fn end_run(&mut self, run: u64, trace: TraceHash, nontrivial: bool, steps: u64) {
        self.runs += 1;
        self.steps += steps;
        self.log_hash = mix(mix(self.log_hash, run), trace.0);
        if nontrivial {
            self.hashes.push(trace.0);
        }
        if self.keep_hashlog {
            self.hashlog.push((run, trace.0));
        }
    }
    pub fn violation(&mut self, v: Violation) {
        self.violation_total += 1;
        if self.violations.len() < 16 && !self.violations.contains_key(&v.signature) {
            self.violations.insert(v.signature.clone(), v);
        }
    }
    /// Merge a later chunk into self (self covers lower run indices).
    pub fn absorb(&mut self, o: Stats) {
        for (a, b) in self.counters.iter_mut().zip(o.counters.iter()) {
            *a += *b;
        }
        self.cover.extend(o.cover);
        self.hashes.extend(o.hashes);
        self.runs += o.runs;
        self.steps += o.steps;
        self.log_hash = mix(self.log_hash, o.log_hash);
        if self.samples.len() < 3 {
            for s in o.samples {
                if self.samples.len() < 3 {
                    self.samples.push(s);
                }
            }
        }
        self.violation_total += o.violation_total;
        for (k, v) in o.violations {
            if self.violations.len() < 16 && !self.violations.contains_key(&k) {
                self.violations.insert(k, v);
            }
        }
        self.hashlog.extend(o.hashlog);
    }
    pub fn distinct_hashes(&mut self) -> u64 {
        self.hashes.sort_unstable();
        self.hashes.dedup();
        self.hashes.len() as u64
    }
}

pub const CHUNK: u64 = 512;

/// Describes run `r` (corpus case + script) without executing it; used by the watchdog to write a
/// replay file for a run that makes no progress.
pub type Describe<'a> = &'a (dyn Fn(u64) -> Option<Violation> + Sync);

pub fn hang_secs() -> u64 {
    std::env::var("VERIF_HANG_SECS").ok().and_then(|s| s.parse().ok()).unwrap_or(60)
}

/// Runs `0..runs` sharded over `workers` threads. Each run depends only on its index, chunks are
/// merged in index order, so the result is independent of the worker count and of timing.
///
/// Liveness: a watchdog thread observes every worker; a single run normally takes microseconds,
/// so a worker that stays in the same run for `hang_secs()` has met a call that does not return
/// (e.g. an iterator that never yields `None` under `count()`). The watchdog then writes the run's
/// script as a replay file, prints a `CANDIDATE-HANG` line and exits with status 3; the driver
/// confirms it by replaying the script under a time limit.
pub fn run_parallel<F>(cli: &Cli, property: &str, names: &'static [&'static str], describe: Describe, f: F) -> Stats
where
    F: Fn(u64, &mut Stats) + Sync,
{
    let nchunks = (cli.runs + CHUNK - 1) / CHUNK;
    let next = AtomicU64::new(0);
    let done: Mutex<Vec<(u64, Stats)>> = Mutex::new(Vec::new());
    let keep_hashlog = cli.hashlog.is_some();
    let nw = cli.workers;
    let cur: Vec<AtomicU64> = (0..nw).map(|_| AtomicU64::new(0)).collect();
    let since: Vec<AtomicU64> = (0..nw).map(|_| AtomicU64::new(0)).collect();
    let finished = AtomicU64::new(0);
    let t0 = Instant::now();
    let limit_ms = hang_secs() * 1000;
    std::thread::scope(|sc| {
        for w in 0..nw {
            let (cur, since, next, done, finished, f) = (&cur, &since, &next, &done, &finished, &f);
            sc.spawn(move || {
                loop {
                    let c = next.fetch_add(1, Ordering::Relaxed);
                    if c >= nchunks {
                        break;
                    }
                    let mut st = Stats::new(names);
                    st.keep_hashlog = keep_hashlog;
                    let lo = c * CHUNK;
                    let hi = ((c + 1) * CHUNK).min(cli.runs);
                    for r in lo..hi {
                        if r % 16 == 0 || limit_ms < 5000 {
                            // (coarse stamps keep the clock out of the hot path; never on a logging path
                            // that feeds the trace)
                            since[w].store(t0.elapsed().as_millis() as u64, Ordering::Relaxed);
                        }
                        cur[w].store(r + 1, Ordering::Relaxed);
                        // a panic that escapes an engine's own `catch` is a bug in the simulator,
                        // never a verdict about strum
                        if let Err(p) = catch(|| f(r, &mut st)) {
                            eprintln!("HARNESS-ERROR simulator panicked in run {}: {}", r, p);
                            std::process::exit(2);
                        }
                    }
                    done.lock().unwrap().push((c, st));
                }
                cur[w].store(0, Ordering::Relaxed);
                finished.fetch_add(1, Ordering::Relaxed);
            });
        }
        // watchdog
        let (cur, since, finished) = (&cur, &since, &finished);
        sc.spawn(move || {
            let mut last_seen: Vec<(u64, u64)> = vec![(0, 0); nw];
            loop {
                std::thread::sleep(std::time::Duration::from_millis(200));
                if finished.load(Ordering::Relaxed) as usize >= nw {
                    return;
                }
                let now = t0.elapsed().as_millis() as u64;
                for w in 0..nw {
                    let c = cur[w].load(Ordering::Relaxed);
                    if c == 0 {
                        continue;
                    }
                    if last_seen[w].0 != c {
                        last_seen[w] = (c, now);
                        continue;
                    }
                    let _ = since[w].load(Ordering::Relaxed);
                    if now - last_seen[w].1 > limit_ms {
                        let run = c - 1;
                        let mut v = describe(run).unwrap_or(Violation { oracle: "no_progress".into(), signature: "hang".into(), run, case: "?".into(), script: vec![], expected: String::new(), observed: String::new() });
                        v.oracle = "no_progress".into();
                        v.signature = "hang".into();
                        v.expected = format!("every run finishes (a run normally takes microseconds; limit {} s)", limit_ms / 1000);
                        v.observed = "the run did not finish: some call does not return".into();
                        let fname = format!("{}/{}-{}-{}-{}-hang.json", cli.replay_dir, property, PROFILE, cli.seed, run);
                        let _ = std::fs::create_dir_all(&cli.replay_dir);
                        let j = replay_json(property, cli, &v, v.script.len()).set("minimised", Json::Bool(false));
                        let _ = std::fs::write(&fname, j.pretty());
                        println!("CANDIDATE-HANG property={} signature=hang oracle=no_progress replay={}", property, fname);
                        use std::io::Write;
                        let _ = std::io::stdout().flush();
                        std::process::exit(3);
                    }
                }
            }
        });
    });
    let mut v = done.into_inner().unwrap();
    v.sort_by_key(|(c, _)| *c);
    let mut total = Stats::new(names);
    for (_, s) in v {
        total.absorb(s);
    }
    total
}

/// Silences the default panic message for panics we provoke on purpose (every SUT call runs
/// under `catch`).
pub fn quiet_panics() {
    if std::env::var("VERIF_LOUD").is_ok() {
        return;
    }
    panic::set_hook(Box::new(|_| {}));
}

pub fn catch<R>(f: impl FnOnce() -> R) -> Result<R, String> {
    match panic::catch_unwind(AssertUnwindSafe(f)) {
        Ok(r) => Ok(r),
        Err(e) => {
            let msg = if let Some(s) = e.downcast_ref::<&str>() {
                s.to_string()
            } else if let Some(s) = e.downcast_ref::<String>() {
                s.clone()
            } else {
                "<non-string panic payload>".to_string()
            };
            Err(msg)
        }
    }
}

/// Delta debugging (ddmin) over a list; `fails` must return true when the candidate still
/// exhibits the *same* failure.
pub fn ddmin<T: Clone>(items: Vec<T>, mut fails: impl FnMut(&[T]) -> bool) -> Vec<T> {
    let mut cur = items;
    let mut n = 2usize;
    while cur.len() >= 2 {
        let len = cur.len();
        let chunk = (len + n - 1) / n;
        let mut reduced = false;
        // try complements (remove one chunk)
        let mut start = 0;
        while start < len {
            let end = (start + chunk).min(len);
            let mut cand: Vec<T> = Vec::with_capacity(len - (end - start));
            cand.extend_from_slice(&cur[..start]);
            cand.extend_from_slice(&cur[end..]);
            if !cand.is_empty() && fails(&cand) {
                cur = cand;
                n = (n - 1).max(2);
                reduced = true;
                break;
            }
            start = end;
        }
        if !reduced {
            if n >= len {
                break;
            }
            n = (n * 2).min(len);
        }
    }
    // final single-element removal pass
    let mut i = 0;
    while cur.len() > 1 && i < cur.len() {
        let mut cand = cur.clone();
        cand.remove(i);
        if fails(&cand) {
            cur = cand;
        } else {
            i += 1;
        }
    }
    cur
}

pub fn replay_json(property: &str, cli: &Cli, v: &Violation, original_len: usize) -> Json {
    Json::obj()
        .set("property", Json::s(property))
        .set("oracle", Json::s(v.oracle.clone()))
        .set("signature", Json::s(v.signature.clone()))
        .set("seed", Json::u(cli.seed))
        .set("run", Json::u(v.run))
        .set("profile", Json::s(PROFILE))
        .set("corpus", Json::s(cli.corpus_tag.clone()))
        .set("case", Json::s(v.case.clone()))
        .set("script", Json::strs(v.script.iter().cloned()))
        .set("expected", Json::s(v.expected.clone()))
        .set("observed", Json::s(v.observed.clone()))
        .set("original_script_len", Json::u(original_len as u64))
        .set("minimised", Json::Bool(!cli.no_minimise))
}

pub struct ReplayFile {
    pub case: String,
    pub script: Vec<String>,
    pub oracle: String,
    pub signature: String,
    pub profile: String,
}

pub fn read_replay(path: &str) -> Result<ReplayFile, String> {
    let text = std::fs::read_to_string(path).map_err(|e| format!("{}: {}", path, e))?;
    let j = crate::json::parse(&text)?;
    let gs = |k: &str| -> Result<String, String> {
        j.get(k).and_then(|v| v.as_str()).map(|s| s.to_string()).ok_or(format!("missing {}", k))
    };
    let script = j
        .get("script")
        .and_then(|v| v.as_arr())
        .ok_or("missing script")?
        .iter()
        .map(|v| v.as_str().map(|s| s.to_string()).ok_or("script item".to_string()))
        .collect::<Result<Vec<_>, _>>()?;
    Ok(ReplayFile {
        case: gs("case")?,
        script,
        oracle: gs("oracle")?,
        signature: gs("signature")?,
        profile: gs("profile").unwrap_or_default(),
    })
}

/// Writes the per-binary partial evidence; /verif/check merges the partials of all binaries and
/// profiles of one property into /verif/evidence/<id>.json.
pub fn write_partial(
    cli: &Cli,
    property: &str,
    engine: &str,
    stats: &mut Stats,
    wall_s: f64,
    extra: Json,
    candidates: Vec<Json>,
) {
    let distinct = stats.distinct_hashes();
    let mut counters = Json::obj();
    for (n, c) in stats.names.iter().zip(stats.counters.iter()) {
        counters.put(*n, Json::u(*c));
    }
    let j = Json::obj()
        .set("property", Json::s(property))
        .set("engine", Json::s(engine))
        .set("profile", Json::s(PROFILE))
        .set("corpus", Json::s(cli.corpus_tag.clone()))
        .set("mode", Json::s(cli.mode.clone()))
        .set("seed", Json::u(cli.seed))
        .set("workers", Json::u(cli.workers as u64))
        .set("runs", Json::u(stats.runs))
        .set("steps", Json::u(stats.steps))
        .set("distinct_nontrivial_traces", Json::u(distinct))
        .set("state_cover", Json::u(stats.cover.len() as u64))
        .set("log_hash", Json::s(format!("{:016x}", stats.log_hash)))
        .set("wall_s", Json::Float(wall_s))
        .set("counters", counters)
        .set("violation_total", Json::u(stats.violation_total))
        .set("candidates", Json::Arr(candidates))
        .set("samples", Json::Arr(stats.samples.clone()))
        .set("extra", extra);
    if let Some(p) = &cli.partial {
        if let Err(e) = std::fs::write(p, j.pretty()) {
            eprintln!("HARNESS-ERROR cannot write {}: {}", p, e);
            std::process::exit(2);
        }
    }
    if let Some(p) = &cli.hashlog {
        let mut s = String::new();
        stats.hashlog.sort_unstable();
        for (r, h) in &stats.hashlog {
            s.push_str(&format!("{} {:016x}\n", r, h));
        }
        let _ = std::fs::write(p, s);
    }
}

pub fn now() -> Instant {
    Instant::now()
}

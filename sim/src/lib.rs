//! Deterministic simulation harness for Peternator7/strum (see /verif/DESIGN.md).
pub mod c05;
pub mod harness;
pub mod json;
pub mod rng;

//! Deterministic simulation harness for Peternator7/strum (see /verif/DESIGN.md).
pub mod c05;
pub mod c10;
pub mod c11;
pub mod c17;
pub mod fmtsim;
pub mod harness;
pub mod json;
pub mod rng;
pub mod specs;

//! C10 — EnumTable is a total map from enabled variants to values, under any history of
//! constructor / write / read operations, with planted `None`/`Err` slots, disabled keys and
//! panicking closures as injected faults.
//!
//! Simulated system: up to MAX_TABLES live tables (the real generated `ETable<Val>`), driven by
//! the seeded scheduler. Reference model: one `Vec<Val>` per table, indexed by the position of
//! the key in the generator-written list of enabled variants.
use crate::harness::*;
use crate::json::Json;
use crate::rng::Rng;
use std::any::Any;
use std::collections::hash_map::DefaultHasher;
use std::hash::{Hash, Hasher};

pub const MAX_TABLES: usize = 3;
pub const ENGINE_ID: u64 = 10;

/// Slot value. Not `Copy`, so that moves/clones inside the generated code are real.
#[derive(Clone, Debug, PartialEq, Eq, Hash)]
pub struct Val(pub u64);

/// `Default` is deliberately not the all-zero value.
pub const VAL_DEFAULT: u64 = 7_777;
impl Default for Val {
    fn default() -> Val {
        Val(VAL_DEFAULT)
    }
}

#[derive(Clone, Copy, Debug, PartialEq, Eq)]
pub enum KeyPos {
    Enabled(usize),
    Disabled(usize),
}

/// Object-safe view of one real table. Implemented for every `ETable<Val>` of the corpus by
/// `c10_glue!`; every method goes through the public generated API with a *key value*.
pub trait Tab {
    fn get(&self, p: usize) -> Val;
    fn set(&mut self, p: usize, v: Val);
    fn modify(&mut self, p: usize, d: u64);
    fn replace(&mut self, p: usize, v: Val) -> Val;
    fn index_disabled(&self, d: usize) -> Val;
    fn index_mut_disabled(&mut self, d: usize, v: Val);
    fn dup(&self) -> Box<dyn Tab>;
    /// `Clone::clone_from` (an impl may override it separately from `clone`)
    fn clone_from_dyn(&mut self, other: &dyn Tab);
    fn eq_dyn(&self, other: &dyn Tab) -> bool;
    /// `!=` (PartialEq::ne can be overridden separately from eq)
    fn ne_dyn(&self, other: &dyn Tab) -> bool;
    fn as_any(&self) -> &dyn Any;
    fn transform(&self, g: &dyn Fn(KeyPos, &Val) -> Val) -> Box<dyn Tab>;
    fn hash64(&self) -> u64;
    fn debug(&self) -> String;
}

pub trait Factory: Sync {
    fn n_enabled(&self) -> usize;
    fn n_disabled(&self) -> usize;
    fn new(&self, v: &[Val]) -> Box<dyn Tab>;
    fn filled(&self, x: Val) -> Box<dyn Tab>;
    fn default(&self) -> Box<dyn Tab>;
    fn from_closure(&self, f: &dyn Fn(KeyPos) -> Val) -> Box<dyn Tab>;
    /// builds an `ETable<Option<Val>>` holding `slots` (construction path chosen by `how`) and
    /// calls `all()`
    fn all(&self, slots: &[Option<Val>], how: u8) -> Option<Box<dyn Tab>>;
    fn all_ok(&self, slots: &[Result<Val, Val>], how: u8) -> Result<Box<dyn Tab>, Val>;
}

pub fn hash_of<T: Hash>(t: &T) -> u64 {
    let mut h = DefaultHasher::new();
    t.hash(&mut h);
    h.finish()
}

/// Generates the glue for one corpus enum. `$newfn` is the generator-written positional
/// constructor `fn <T: Clone>(&[T]) -> ETable<T>` (declaration order).
#[macro_export]
macro_rules! c10_glue {
    ($spec:ident, $key:ident, $table:ident, $newfn:ident, [$($en:ident),*], [$($dis:ident),*]) => {
        pub struct $spec;
        impl $spec {
            pub const ENABLED: &'static [$key] = &[$($key::$en),*];
            pub const DISABLED: &'static [$key] = &[$($key::$dis),*];
            fn pos(k: $key) -> $crate::c10::KeyPos {
                if let Some(i) = Self::ENABLED.iter().position(|e| *e == k) {
                    return $crate::c10::KeyPos::Enabled(i);
                }
                $crate::c10::KeyPos::Disabled(Self::DISABLED.iter().position(|e| *e == k).unwrap_or(usize::MAX))
            }
            /// position of an enabled key; a closure that is handed a disabled key gets `None`
            /// and answers with a sentinel value (the slot comparison then decides, not a panic
            /// of the harness)
            fn epos(k: $key) -> Option<usize> {
                match Self::pos(k) {
                    $crate::c10::KeyPos::Enabled(i) => Some(i),
                    _ => None,
                }
            }
        }
        impl $crate::c10::Tab for $table<$crate::c10::Val> {
            fn get(&self, p: usize) -> $crate::c10::Val { self[$spec::ENABLED[p]].clone() }
            fn set(&mut self, p: usize, v: $crate::c10::Val) { self[$spec::ENABLED[p]] = v; }
            fn modify(&mut self, p: usize, d: u64) {
                let r: &mut $crate::c10::Val = &mut self[$spec::ENABLED[p]];
                r.0 = r.0.wrapping_add(d);
            }
            fn replace(&mut self, p: usize, v: $crate::c10::Val) -> $crate::c10::Val {
                ::std::mem::replace(&mut self[$spec::ENABLED[p]], v)
            }
            fn index_disabled(&self, d: usize) -> $crate::c10::Val { self[$spec::DISABLED[d]].clone() }
            fn index_mut_disabled(&mut self, d: usize, v: $crate::c10::Val) { self[$spec::DISABLED[d]] = v; }
            fn dup(&self) -> Box<dyn $crate::c10::Tab> { Box::new(self.clone()) }
            fn clone_from_dyn(&mut self, other: &dyn $crate::c10::Tab) {
                if let Some(o) = other.as_any().downcast_ref::<$table<$crate::c10::Val>>() {
                    ::std::clone::Clone::clone_from(self, o);
                }
            }
            fn eq_dyn(&self, other: &dyn $crate::c10::Tab) -> bool {
                match other.as_any().downcast_ref::<$table<$crate::c10::Val>>() {
                    Some(o) => self == o,
                    None => false,
                }
            }
            fn ne_dyn(&self, other: &dyn $crate::c10::Tab) -> bool {
                match other.as_any().downcast_ref::<$table<$crate::c10::Val>>() {
                    Some(o) => self != o,
                    None => true,
                }
            }
            fn as_any(&self) -> &dyn ::std::any::Any { self }
            fn transform(&self, g: &dyn Fn($crate::c10::KeyPos, &$crate::c10::Val) -> $crate::c10::Val) -> Box<dyn $crate::c10::Tab> {
                Box::new($table::transform(self, |k, old| g($spec::pos(k), old)))
            }
            fn hash64(&self) -> u64 { $crate::c10::hash_of(self) }
            fn debug(&self) -> String { format!("{:?}", self) }
        }
        impl $crate::c10::Factory for $spec {
            fn n_enabled(&self) -> usize { Self::ENABLED.len() }
            fn n_disabled(&self) -> usize { Self::DISABLED.len() }
            fn new(&self, v: &[$crate::c10::Val]) -> Box<dyn $crate::c10::Tab> { Box::new($newfn(v)) }
            fn filled(&self, x: $crate::c10::Val) -> Box<dyn $crate::c10::Tab> { Box::new($table::filled(x)) }
            fn default(&self) -> Box<dyn $crate::c10::Tab> { Box::new(<$table<$crate::c10::Val> as Default>::default()) }
            fn from_closure(&self, f: &dyn Fn($crate::c10::KeyPos) -> $crate::c10::Val) -> Box<dyn $crate::c10::Tab> {
                Box::new($table::from_closure(|k| f(Self::pos(k))))
            }
            fn all(&self, slots: &[Option<$crate::c10::Val>], how: u8) -> Option<Box<dyn $crate::c10::Tab>> {
                let t: $table<Option<$crate::c10::Val>> = match how {
                    0 => $newfn(slots),
                    1 => $table::from_closure(|k| match Self::epos(k) { Some(i) => slots[i].clone(), None => Some($crate::c10::Val(u64::MAX)) }),
                    _ => {
                        let mut t = $table::filled(None);
                        for (i, s) in slots.iter().enumerate() { t[Self::ENABLED[i]] = s.clone(); }
                        t
                    }
                };
                t.all().map(|t| Box::new(t) as Box<dyn $crate::c10::Tab>)
            }
            fn all_ok(&self, slots: &[Result<$crate::c10::Val, $crate::c10::Val>], how: u8) -> Result<Box<dyn $crate::c10::Tab>, $crate::c10::Val> {
                let t: $table<Result<$crate::c10::Val, $crate::c10::Val>> = match how {
                    0 => $newfn(slots),
                    1 => $table::from_closure(|k| match Self::epos(k) { Some(i) => slots[i].clone(), None => Ok($crate::c10::Val(u64::MAX)) }),
                    _ => {
                        let mut t = $table::filled(Ok($crate::c10::Val(0)));
                        for (i, s) in slots.iter().enumerate() { t[Self::ENABLED[i]] = s.clone(); }
                        t
                    }
                };
                t.all_ok().map(|t| Box::new(t) as Box<dyn $crate::c10::Tab>)
            }
        }
    };
}

pub struct Case {
    pub name: &'static str,
    pub n: usize,
    pub n_disabled: usize,
    pub desc: &'static str,
    pub factory: &'static dyn Factory,
}

// ------------------------------------------------------------------------------------------
// Operations.

#[derive(Clone, Debug, PartialEq)]
pub enum Op {
    /// new(base, base+1, ...)
    New(usize, u64),
    Filled(usize, u64),
    Default(usize),
    /// from_closure(|k| base + pos(k))
    FromClosure(usize, u64),
    /// transform(|k, old| g(salt, pos(k), old)) replaces handle h by the result (or adds one)
    Transform(usize, u64, bool),
    Clone(usize),
    Drop(usize),
    Set(usize, usize, u64),
    Modify(usize, usize, u64),
    Replace(usize, usize, u64),
    Get(usize, usize),
    IdxDisabled(usize, usize),
    IdxMutDisabled(usize, usize, u64),
    /// all() over a copy of h's values with None planted where mask bit set; how = construction path
    All(usize, u64, u8),
    AllOk(usize, u64, u8),
    Eq(usize, usize),
    /// from_closure whose closure panics at enabled position p (injected fault in user code)
    ClosurePanic(usize, usize),
    TransformPanic(usize, usize),
    /// clone h, change exactly slot p of the clone: `==` must turn false; restore it: true again
    EqProbe(usize, usize, u64),
    /// `tables[a].clone_from(&tables[b])`
    CloneFrom(usize, usize),
}

pub const OP_KINDS: &[&str] = &[
    "new", "filled", "default", "from_closure", "transform", "clone", "drop", "set", "modify", "replace", "get",
    "idx_disabled", "idxmut_disabled", "all", "all_ok", "eq", "closure_panic", "transform_panic", "eq_probe", "clone_from",
];

impl Op {
    pub fn kind(&self) -> usize {
        match self {
            Op::New(..) => 0,
            Op::Filled(..) => 1,
            Op::Default(..) => 2,
            Op::FromClosure(..) => 3,
            Op::Transform(..) => 4,
            Op::Clone(..) => 5,
            Op::Drop(..) => 6,
            Op::Set(..) => 7,
            Op::Modify(..) => 8,
            Op::Replace(..) => 9,
            Op::Get(..) => 10,
            Op::IdxDisabled(..) => 11,
            Op::IdxMutDisabled(..) => 12,
            Op::All(..) => 13,
            Op::AllOk(..) => 14,
            Op::Eq(..) => 15,
            Op::ClosurePanic(..) => 16,
            Op::TransformPanic(..) => 17,
            Op::EqProbe(..) => 18,
            Op::CloneFrom(..) => 19,
        }
    }
    pub fn line(&self) -> String {
        let n = OP_KINDS[self.kind()];
        match self {
            Op::New(h, b) | Op::Filled(h, b) | Op::FromClosure(h, b) => format!("{} {} {}", n, h, b),
            Op::Default(h) | Op::Clone(h) | Op::Drop(h) => format!("{} {}", n, h),
            Op::Transform(h, s, add) => format!("{} {} {} {}", n, h, s, *add as u8),
            Op::Set(h, p, v) | Op::Modify(h, p, v) | Op::Replace(h, p, v) | Op::EqProbe(h, p, v) => format!("{} {} {} {}", n, h, p, v),
            Op::Get(h, p) | Op::IdxDisabled(h, p) | Op::ClosurePanic(h, p) | Op::TransformPanic(h, p) => format!("{} {} {}", n, h, p),
            Op::IdxMutDisabled(h, d, v) => format!("{} {} {} {}", n, h, d, v),
            Op::All(h, m, how) | Op::AllOk(h, m, how) => format!("{} {} {} {}", n, h, m, how),
            Op::Eq(a, b) | Op::CloneFrom(a, b) => format!("{} {} {}", n, a, b),
        }
    }
    pub fn parse(line: &str) -> Result<Op, String> {
        let p: Vec<&str> = line.split_whitespace().collect();
        let num = |i: usize| -> Result<u64, String> {
            p.get(i).ok_or(format!("missing arg in {:?}", line))?.parse::<u64>().map_err(|e| format!("{:?}: {}", line, e))
        };
        let us = |i: usize| -> Result<usize, String> { num(i).map(|v| v as usize) };
        if p.is_empty() {
            return Err("empty op".into());
        }
        Ok(match p[0] {
            "new" => Op::New(us(1)?, num(2)?),
            "filled" => Op::Filled(us(1)?, num(2)?),
            "default" => Op::Default(us(1)?),
            "from_closure" => Op::FromClosure(us(1)?, num(2)?),
            "transform" => Op::Transform(us(1)?, num(2)?, num(3)? != 0),
            "clone" => Op::Clone(us(1)?),
            "drop" => Op::Drop(us(1)?),
            "set" => Op::Set(us(1)?, us(2)?, num(3)?),
            "modify" => Op::Modify(us(1)?, us(2)?, num(3)?),
            "replace" => Op::Replace(us(1)?, us(2)?, num(3)?),
            "get" => Op::Get(us(1)?, us(2)?),
            "idx_disabled" => Op::IdxDisabled(us(1)?, us(2)?),
            "idxmut_disabled" => Op::IdxMutDisabled(us(1)?, us(2)?, num(3)?),
            "all" => Op::All(us(1)?, num(2)?, num(3)? as u8),
            "all_ok" => Op::AllOk(us(1)?, num(2)?, num(3)? as u8),
            "eq" => Op::Eq(us(1)?, us(2)?),
            "closure_panic" => Op::ClosurePanic(us(1)?, us(2)?),
            "transform_panic" => Op::TransformPanic(us(1)?, us(2)?),
            "eq_probe" => Op::EqProbe(us(1)?, us(2)?, num(3)?),
            "clone_from" => Op::CloneFrom(us(1)?, us(2)?),
            other => return Err(format!("unknown op {:?}", other)),
        })
    }
}

pub const NAMES: &[&str] = &[
    "op_new", "op_filled", "op_default", "op_from_closure", "op_transform", "op_clone", "op_drop", "op_set", "op_modify",
    "op_replace", "op_get", "op_idx_disabled", "op_idxmut_disabled", "op_all", "op_all_ok", "op_eq", "op_closure_panic",
    "op_transform_panic",
    "fault_disabled_key_panicked", "fault_none_planted", "fault_err_planted", "fault_closure_panic_fired",
    "probe_write_then_read_other_key", "probe_write_same_key_twice", "probe_disabled_after_writes",
    "probe_err_in_first_and_later_slot", "probe_err_only_in_last_slot", "probe_none_only_in_last_slot",
    "probe_none_only_in_first_slot", "probe_all_none_free", "probe_all_ok_err_free", "probe_transform_after_writes",
    "probe_clone_then_diverge", "probe_eq_true", "probe_eq_false", "probe_multiple_err_planted", "op_eq_probe",
    "probe_planted_beyond_slot_64", "op_clone_from", "probe_table_of_another_enum_touched_in_between", "probe_nested_transform",
];
const F_DISABLED: usize = 18;
const F_NONE: usize = 19;
const F_ERR: usize = 20;
const F_CLOSURE_PANIC: usize = 21;
const P_WRITE_READ_OTHER: usize = 22;
const P_WRITE_TWICE: usize = 23;
const P_DISABLED_AFTER_WRITES: usize = 24;
const P_ERR_FIRST_AND_LATER: usize = 25;
const P_ERR_ONLY_LAST: usize = 26;
const P_NONE_ONLY_LAST: usize = 27;
const P_NONE_ONLY_FIRST: usize = 28;
const P_ALL_NONE_FREE: usize = 29;
const P_ALLOK_ERR_FREE: usize = 30;
const P_TRANSFORM_AFTER_WRITES: usize = 31;
const P_CLONE_DIVERGE: usize = 32;
const P_EQ_TRUE: usize = 33;
const P_EQ_FALSE: usize = 34;
const P_MULTI_ERR: usize = 35;
const OP_EQ_PROBE: usize = 36;
const P_BEYOND_64: usize = 37;
const OP_CLONE_FROM: usize = 38;
const P_FOREIGN: usize = 39;
const P_NESTED_TRANSFORM: usize = 40;

pub struct Failure {
    pub oracle: &'static str,
    pub step: usize,
    pub op: Option<Op>,
    pub expected: String,
    pub observed: String,
}
impl Failure {
    pub fn signature(&self) -> String {
        match &self.op {
            Some(o) => format!("{}:{}", self.oracle, OP_KINDS[o.kind()]),
            None => format!("{}:init", self.oracle),
        }
    }
}

struct Slot {
    real: Box<dyn Tab>,
    model: Vec<Val>,
    writes: u32,
    last_written: Option<usize>,
    parent: Option<usize>,
}

/// Slots in which a fault is planted for `mask`: bit b stands for slot b, or, for tables with
/// more than 64 slots, for slot b*(n-1)/63 (so the bits spread over the whole table, last slot
/// included).
pub fn planted_slots(mask: u64, n: usize) -> Vec<usize> {
    let mut v: Vec<usize> = (0..64usize)
        .filter(|b| (mask >> b) & 1 == 1)
        .filter_map(|b| if n <= 64 { if b < n { Some(b) } else { None } } else { Some(b * (n - 1) / 63) })
        .collect();
    v.sort_unstable();
    v.dedup();
    v
}

pub fn g_fn(salt: u64, pos: usize, old: &Val) -> Val {
    Val(old.0.wrapping_mul(1_000_003).wrapping_add(pos as u64 * 7919).wrapping_add(salt.wrapping_mul(104_729)))
}

pub struct Exec<'a> {
    pub case: &'a Case,
    pub trace: TraceHash,
    pub steps: u64,
    pub nontrivial: bool,
    pub log: Option<Vec<String>>,
}

fn show(v: &[Val]) -> String {
    let p: Vec<String> = v.iter().map(|x| x.0.to_string()).collect();
    format!("[{}]", p.join(","))
}

impl<'a> Exec<'a> {
    pub fn new(case: &'a Case, keep_log: bool) -> Self {
        Exec { case, trace: TraceHash::new(), steps: 0, nontrivial: false, log: if keep_log { Some(Vec::new()) } else { None } }
    }
    fn note(&mut self, s: impl FnOnce() -> String) {
        if let Some(l) = &mut self.log {
            l.push(s());
        }
    }

    fn check_slot(&mut self, step: usize, op: Option<&Op>, s: &Slot) -> Result<(), Failure> {
        let fail = |oracle: &'static str, e: String, o: String| Failure { oracle, step, op: op.cloned(), expected: e, observed: o };
        let mut got = Vec::with_capacity(s.model.len());
        for p in 0..s.model.len() {
            let v = catch(|| s.real.get(p)).map_err(|m| fail("panic_read", "no panic".into(), format!("reading enabled key #{} panicked: {}", p, m)))?;
            self.trace.u(v.0);
            got.push(v);
        }
        if got != s.model {
            return Err(fail("slots", show(&s.model), show(&got)));
        }
        Ok(())
    }

    pub fn run(&mut self, ops: &[Op], mut stats: Option<&mut Stats>) -> Result<(), Failure> {
        let f = self.case.factory;
        let n = self.case.n;
        let nd = self.case.n_disabled;
        self.trace.s(self.case.name);
        // every run starts with one table built by default()
        let first = catch(|| f.default()).map_err(|m| Failure { oracle: "panic", step: 0, op: None, expected: "no panic".into(), observed: m })?;
        let mut slots = vec![Slot { real: first, model: vec![Val(VAL_DEFAULT); n], writes: 0, last_written: None, parent: None }];
        {
            let s0 = slots.remove(0);
            let r = self.check_slot(0, None, &s0);
            slots.push(s0);
            r?;
        }
        // a table of another enum (the next case of the corpus), touched before reads and writes whose raw key is even
        let mut foreign: Option<(Box<dyn Tab>, usize)> = ALL_CASES.get().and_then(|cs| {
            let i = cs.iter().position(|c| c.name == self.case.name)?;
            let fc = &cs[(i + 1) % cs.len()];
            if cs.len() < 2 || fc.n == 0 {
                return None;
            }
            catch(|| fc.factory.filled(Val(5))).ok().map(|t| (t, fc.n))
        });
        for (si, op) in ops.iter().enumerate() {
            let step = si + 1;
            self.steps += 1;
            self.trace.u(op.kind() as u64);
            if let Some(st) = stats.as_deref_mut() {
                st.hit(match op.kind() {
                    18 => OP_EQ_PROBE,
                    19 => OP_CLONE_FROM,
                    k => k,
                });
            }
            let fail = |oracle: &'static str, e: String, o: String| Failure { oracle, step, op: Some(op.clone()), expected: e, observed: o };
            let nslots = slots.len();
            let hh = |h: usize| h % nslots;
            // where a constructor result goes: a new handle while there is room, else it replaces h
            let place = |slots: &mut Vec<Slot>, h: usize, s: Slot| {
                if slots.len() < MAX_TABLES {
                    slots.push(s);
                } else {
                    let i = h % slots.len();
                    slots[i] = s;
                    for o in slots.iter_mut() {
                        if o.parent == Some(i) {
                            o.parent = None;
                        }
                    }
                }
            };
            match op {
                Op::New(h, base) => {
                    let vals: Vec<Val> = (0..n as u64).map(|i| Val(base + i)).collect();
                    let real = catch(|| f.new(&vals)).map_err(|m| fail("panic", "no panic".into(), m))?;
                    self.note(|| format!("{} -> new({})", op.line(), show(&vals)));
                    self.nontrivial = true;
                    place(&mut slots, *h, Slot { real, model: vals, writes: 0, last_written: None, parent: None });
                }
                Op::Filled(h, x) => {
                    let real = catch(|| f.filled(Val(*x))).map_err(|m| fail("panic", "no panic".into(), m))?;
                    self.note(|| format!("{} -> filled({})", op.line(), x));
                    self.nontrivial = true;
                    place(&mut slots, *h, Slot { real, model: vec![Val(*x); n], writes: 0, last_written: None, parent: None });
                }
                Op::Default(h) => {
                    let real = catch(|| f.default()).map_err(|m| fail("panic", "no panic".into(), m))?;
                    self.note(|| op.line());
                    place(&mut slots, *h, Slot { real, model: vec![Val(VAL_DEFAULT); n], writes: 0, last_written: None, parent: None });
                }
                Op::FromClosure(h, base) => {
                    let seen = std::cell::RefCell::new(Vec::new());
                    let b = *base;
                    let real = catch(|| {
                        f.from_closure(&|k| {
                            seen.borrow_mut().push(k);
                            match k {
                                KeyPos::Enabled(i) => Val(b + i as u64),
                                // a closure that is only defined on the enabled keys is a legitimate closure:
                                // from_closure(f)[k] == f(k) has to hold for it too
                                KeyPos::Disabled(d) => panic!("closure was handed disabled key #{}", d),
                            }
                        })
                    })
                    .map_err(|m| fail("panic", "no panic (the closure is defined on every enabled key)".into(), m))?;
                    self.note(|| format!("{} -> closure saw {:?}", op.line(), seen.borrow()));
                    self.nontrivial = true;
                    let model: Vec<Val> = (0..n as u64).map(|i| Val(b + i)).collect();
                    place(&mut slots, *h, Slot { real, model, writes: 0, last_written: None, parent: None });
                }
                Op::Transform(h, salt, add) => {
                    let i = hh(*h);
                    let s = &slots[i];
                    let salt = *salt;
                    // one transform in five is NESTED: at one key the closure itself transforms the same table and uses
                    // the nested result for that key (still a function of its arguments)
                    let nested_at = if salt % 5 == 0 && n > 0 { Some((salt as usize / 5) % n) } else { None };
                    let real = catch(|| s.real.transform(&|k, old| match k {
                        KeyPos::Enabled(p) if Some(p) == nested_at => {
                            let inner = s.real.transform(&|k2, o2| match k2 {
                                KeyPos::Enabled(p2) => g_fn(salt + 1, p2, o2),
                                KeyPos::Disabled(d) => panic!("closure was handed disabled key #{}", d),
                            });
                            g_fn(salt, p, &inner.get(p))
                        }
                        KeyPos::Enabled(p) => g_fn(salt, p, old),
                        KeyPos::Disabled(d) => panic!("closure was handed disabled key #{}", d),
                    }))
                    .map_err(|m| fail("panic", "no panic (the closure is defined on every enabled key)".into(), m))?;
                    let model: Vec<Val> = s.model.iter().enumerate().map(|(p, old)| if Some(p) == nested_at { g_fn(salt, p, &g_fn(salt + 1, p, old)) } else { g_fn(salt, p, old) }).collect();
                    if nested_at.is_some() {
                        if let Some(st) = stats.as_deref_mut() {
                            st.hit(P_NESTED_TRANSFORM);
                        }
                    }
                    if let Some(st) = stats.as_deref_mut() {
                        if s.writes > 0 {
                            st.hit(P_TRANSFORM_AFTER_WRITES);
                        }
                    }
                    self.note(|| format!("{} -> {}", op.line(), show(&model)));
                    self.nontrivial = true;
                    let ns = Slot { real, model, writes: 0, last_written: None, parent: None };
                    if *add {
                        place(&mut slots, *h, ns);
                    } else {
                        slots[i] = ns;
                    }
                }
                Op::Clone(h) => {
                    if slots.len() < MAX_TABLES {
                        let i = hh(*h);
                        let s = &slots[i];
                        let real = catch(|| s.real.dup()).map_err(|m| fail("panic", "no panic".into(), m))?;
                        let ns = Slot { real, model: s.model.clone(), writes: s.writes, last_written: s.last_written, parent: Some(i) };
                        slots.push(ns);
                        self.note(|| op.line());
                    }
                }
                Op::Drop(h) => {
                    if slots.len() > 1 {
                        let i = hh(*h);
                        slots.remove(i);
                        for s in slots.iter_mut() {
                            s.parent = match s.parent {
                                Some(p) if p == i => None,
                                Some(p) if p > i => Some(p - 1),
                                o => o,
                            };
                        }
                        self.note(|| op.line());
                    }
                }
                Op::Set(h, p, v) | Op::Modify(h, p, v) | Op::Replace(h, p, v) => {
                    if n > 0 {
                        let i = hh(*h);
                        if *p % 2 == 0 {
                            if let Some((ft, fnn)) = foreign.as_mut() {
                                let fp = (*p / 2) % *fnn;
                                let _ = catch(|| ft.set(fp, Val(*v)));
                                if let Some(st) = stats.as_deref_mut() {
                                    st.hit(P_FOREIGN);
                                }
                            }
                        }
                        let p = *p % n;
                        let s = &mut slots[i];
                        if let Some(st) = stats.as_deref_mut() {
                            if s.last_written == Some(p) {
                                st.hit(P_WRITE_TWICE);
                            }
                        }
                        match op {
                            Op::Set(..) => {
                                catch(|| s.real.set(p, Val(*v))).map_err(|m| fail("panic", "no panic".into(), m))?;
                                s.model[p] = Val(*v);
                            }
                            Op::Modify(..) => {
                                catch(|| s.real.modify(p, *v)).map_err(|m| fail("panic", "no panic".into(), m))?;
                                s.model[p] = Val(s.model[p].0.wrapping_add(*v));
                            }
                            _ => {
                                let old = catch(|| s.real.replace(p, Val(*v))).map_err(|m| fail("panic", "no panic".into(), m))?;
                                let want = std::mem::replace(&mut s.model[p], Val(*v));
                                if old != want {
                                    return Err(fail("read", want.0.to_string(), old.0.to_string()));
                                }
                            }
                        }
                        s.writes += 1;
                        s.last_written = Some(p);
                        self.nontrivial = true;
                        self.note(|| format!("{} (key #{})", op.line(), p));
                    }
                }
                Op::Get(h, p) => {
                    if n > 0 {
                        let i = hh(*h);
                        if *p % 2 == 0 {
                            if let Some((ft, fnn)) = foreign.as_ref() {
                                let fp = (*p / 2) % *fnn;
                                let _ = catch(|| ft.get(fp));
                                if let Some(st) = stats.as_deref_mut() {
                                    st.hit(P_FOREIGN);
                                }
                            }
                        }
                        let p = *p % n;
                        let s = &slots[i];
                        let got = catch(|| s.real.get(p)).map_err(|m| fail("panic", "no panic".into(), m))?;
                        self.trace.u(got.0);
                        if let Some(st) = stats.as_deref_mut() {
                            if let Some(w) = s.last_written {
                                if w != p {
                                    st.hit(P_WRITE_READ_OTHER);
                                }
                            }
                        }
                        self.note(|| format!("{} (key #{}) -> {}", op.line(), p, got.0));
                        if got != s.model[p] {
                            return Err(fail("read", s.model[p].0.to_string(), got.0.to_string()));
                        }
                    }
                }
                Op::IdxDisabled(h, d) | Op::IdxMutDisabled(h, d, _) => {
                    if nd > 0 {
                        let i = hh(*h);
                        let d = *d % nd;
                        let s = &mut slots[i];
                        let r = match op {
                            Op::IdxDisabled(..) => catch(|| s.real.index_disabled(d)).map(|v| v.0.to_string()),
                            Op::IdxMutDisabled(_, _, v) => catch(|| s.real.index_mut_disabled(d, Val(*v))).map(|_| "write accepted".to_string()),
                            _ => unreachable!(),
                        };
                        if let Some(st) = stats.as_deref_mut() {
                            if r.is_err() {
                                st.hit(F_DISABLED);
                            }
                            if s.writes > 0 {
                                st.hit(P_DISABLED_AFTER_WRITES);
                            }
                        }
                        self.note(|| format!("{} (disabled key #{}) -> {:?}", op.line(), d, r));
                        if let Ok(v) = r {
                            return Err(fail("disabled_no_panic", "panic".into(), format!("returned {}", v)));
                        }
                    }
                }
                Op::All(h, mask, how) => {
                    let i = hh(*h);
                    let s = &slots[i];
                    let planted: Vec<usize> = planted_slots(*mask, n);
                    if let Some(st) = stats.as_deref_mut() {
                        if planted.iter().any(|p| *p >= 64) {
                            st.hit(P_BEYOND_64);
                        }
                    }
                    let slots_in: Vec<Option<Val>> = s.model.iter().enumerate().map(|(p, v)| if planted.binary_search(&p).is_ok() { None } else { Some(v.clone()) }).collect();
                    if let Some(st) = stats.as_deref_mut() {
                        st.add(F_NONE, planted.len() as u64);
                        if planted.is_empty() {
                            st.hit(P_ALL_NONE_FREE);
                        }
                        if n > 1 && planted == vec![n - 1] {
                            st.hit(P_NONE_ONLY_LAST);
                        }
                        if n > 1 && planted == vec![0] {
                            st.hit(P_NONE_ONLY_FIRST);
                        }
                    }
                    let got = catch(|| f.all(&slots_in, *how)).map_err(|m| fail("panic", "no panic".into(), m))?;
                    self.nontrivial = true;
                    self.trace.u(got.is_some() as u64);
                    self.note(|| format!("{} planted None at {:?} -> {}", op.line(), planted, if got.is_some() { "Some" } else { "None" }));
                    match (got, planted.is_empty()) {
                        (Some(t), true) => {
                            let tmp = Slot { real: t, model: s.model.clone(), writes: 0, last_written: None, parent: None };
                            self.check_slot(step, Some(op), &tmp).map_err(|mut e| {
                                e.oracle = "all_contents";
                                e
                            })?;
                        }
                        (None, false) => {}
                        (Some(_), false) => return Err(fail("all", "None".into(), "Some(..)".into())),
                        (None, true) => return Err(fail("all", "Some(..)".into(), "None".into())),
                    }
                }
                Op::AllOk(h, mask, how) => {
                    let i = hh(*h);
                    let s = &slots[i];
                    // unique error value per slot so that the *first* one is identifiable
                    let planted: Vec<usize> = planted_slots(*mask, n);
                    let slots_in: Vec<Result<Val, Val>> = s.model.iter().enumerate().map(|(p, v)| if planted.binary_search(&p).is_ok() { Err(Val(9_000_000 + p as u64)) } else { Ok(v.clone()) }).collect();
                    if let Some(st) = stats.as_deref_mut() {
                        st.add(F_ERR, planted.len() as u64);
                        if planted.is_empty() {
                            st.hit(P_ALLOK_ERR_FREE);
                        }
                        if planted.len() > 1 {
                            st.hit(P_MULTI_ERR);
                            if planted[0] == 0 {
                                st.hit(P_ERR_FIRST_AND_LATER);
                            }
                        }
                        if n > 1 && planted == vec![n - 1] {
                            st.hit(P_ERR_ONLY_LAST);
                        }
                    }
                    let got = catch(|| f.all_ok(&slots_in, *how)).map_err(|m| fail("panic", "no panic".into(), m))?;
                    self.nontrivial = true;
                    self.note(|| format!("{} planted Err at {:?} -> {}", op.line(), planted, match &got { Ok(_) => "Ok".to_string(), Err(e) => format!("Err({})", e.0) }));
                    match (got, planted.first()) {
                        (Ok(t), None) => {
                            self.trace.u(1);
                            let tmp = Slot { real: t, model: s.model.clone(), writes: 0, last_written: None, parent: None };
                            self.check_slot(step, Some(op), &tmp).map_err(|mut e| {
                                e.oracle = "all_ok_contents";
                                e
                            })?;
                        }
                        (Err(e), Some(first)) => {
                            self.trace.u(e.0);
                            let want = 9_000_000 + *first as u64;
                            if e.0 != want {
                                return Err(fail("all_ok_first_err", format!("Err of slot #{}", first), format!("Err of slot #{}", e.0.wrapping_sub(9_000_000))));
                            }
                        }
                        (Ok(_), Some(first)) => return Err(fail("all_ok", format!("Err of slot #{}", first), "Ok(..)".into())),
                        (Err(e), None) => return Err(fail("all_ok", "Ok(..)".into(), format!("Err({})", e.0))),
                    }
                }
                Op::Eq(a, b) => {
                    let (a, b) = (hh(*a), hh(*b));
                    let got = catch(|| slots[a].real.eq_dyn(&*slots[b].real)).map_err(|m| fail("panic", "no panic".into(), m))?;
                    let want = slots[a].model == slots[b].model;
                    if let Some(st) = stats.as_deref_mut() {
                        st.hit(if want { P_EQ_TRUE } else { P_EQ_FALSE });
                    }
                    self.trace.u(got as u64);
                    self.note(|| format!("{} -> {}", op.line(), got));
                    if got != want {
                        return Err(fail("eq", want.to_string(), got.to_string()));
                    }
                    let got_ne = catch(|| slots[a].real.ne_dyn(&*slots[b].real)).map_err(|m| fail("panic", "no panic".into(), m))?;
                    if got_ne == want {
                        return Err(fail("eq", format!("a != b is {}", !want), format!("a != b is {}", got_ne)));
                    }
                    if want {
                        let (ha, hb) = (slots[a].real.hash64(), slots[b].real.hash64());
                        if ha != hb {
                            return Err(fail("hash", "equal hashes for equal tables".into(), format!("{:x} vs {:x}", ha, hb)));
                        }
                    }
                }
                Op::CloneFrom(a, b) => {
                    let (a, b) = (hh(*a), hh(*b));
                    if a != b {
                        // take the destination out so that source and destination can be borrowed together
                        let mut dst = slots.remove(a);
                        let src_i = if b > a { b - 1 } else { b };
                        let r = catch(|| dst.real.clone_from_dyn(&*slots[src_i].real));
                        dst.model = slots[src_i].model.clone();
                        dst.writes += 1;
                        slots.insert(a, dst);
                        r.map_err(|m| fail("panic", "no panic".into(), m))?;
                        self.nontrivial = true;
                        self.note(|| op.line());
                    }
                }
                Op::EqProbe(h, p, v) => {
                    if n > 0 {
                        let i = hh(*h);
                        let p = *p % n;
                        let s = &slots[i];
                        let orig = s.model[p].clone();
                        let newv = if Val(*v) == orig { Val(v.wrapping_add(1)) } else { Val(*v) };
                        let mut tmp = catch(|| s.real.dup()).map_err(|m| fail("panic", "no panic".into(), m))?;
                        catch(|| tmp.set(p, newv.clone())).map_err(|m| fail("panic", "no panic".into(), m))?;
                        let (a, b) = catch(|| (s.real.eq_dyn(&*tmp), tmp.eq_dyn(&*s.real))).map_err(|m| fail("panic", "no panic".into(), m))?;
                        self.note(|| format!("{} (key #{}) -> differing: {} {}", op.line(), p, a, b));
                        if a || b {
                            return Err(fail("eq", format!("tables differing only in slot #{} compare unequal", p), "equal".into()));
                        }
                        let (na, nb) = catch(|| (s.real.ne_dyn(&*tmp), tmp.ne_dyn(&*s.real))).map_err(|m| fail("panic", "no panic".into(), m))?;
                        if !(na && nb) {
                            return Err(fail("eq", format!("a != b is true for tables differing only in slot #{}", p), "a != b is false".into()));
                        }
                        catch(|| tmp.set(p, orig.clone())).map_err(|m| fail("panic", "no panic".into(), m))?;
                        let (a, b) = catch(|| (s.real.eq_dyn(&*tmp), tmp.eq_dyn(&*s.real))).map_err(|m| fail("panic", "no panic".into(), m))?;
                        if !(a && b) {
                            return Err(fail("eq", "tables with identical slots compare equal".into(), "unequal".into()));
                        }
                        if s.real.hash64() != tmp.hash64() {
                            return Err(fail("hash", "equal hashes for equal tables".into(), "different".into()));
                        }
                        self.nontrivial = true;
                    }
                }
                Op::ClosurePanic(_h, p) | Op::TransformPanic(_h, p) => {
                    if n > 0 {
                        let p = *p % n;
                        let r = match op {
                            Op::ClosurePanic(..) => catch(|| {
                                f.from_closure(&|k| {
                                    if k == KeyPos::Enabled(p) {
                                        panic!("injected closure fault");
                                    }
                                    Val(1)
                                })
                            })
                            .map(|_| ()),
                            _ => {
                                let s = &slots[hh(*_h)];
                                catch(|| {
                                    s.real.transform(&|k, _| {
                                        if k == KeyPos::Enabled(p) {
                                            panic!("injected closure fault");
                                        }
                                        Val(1)
                                    })
                                })
                                .map(|_| ())
                            }
                        };
                        if let Some(st) = stats.as_deref_mut() {
                            if r.is_err() {
                                st.hit(F_CLOSURE_PANIC);
                            }
                        }
                        self.note(|| format!("{} -> {:?}", op.line(), r));
                        // A closure that panics for key p can only fail to fire if the table never
                        // evaluated f(p), in which case from_closure(f)[p] == f(p) cannot hold.
                        if r.is_ok() {
                            return Err(fail("closure_not_called_for_key", format!("closure invoked for enabled key #{}", p), "construction completed without calling it".into()));
                        }
                    }
                }
            }
            // invariants: every slot of every live table equals the model
            for i in 0..slots.len() {
                let s = slots.remove(i);
                let r = self.check_slot(step, Some(op), &s);
                slots.insert(i, s);
                r?;
            }
            if let Some(st) = stats.as_deref_mut() {
                for s in slots.iter() {
                    if let Some(p) = s.parent {
                        if p < slots.len() && slots[p].model != s.model {
                            st.hit(P_CLONE_DIVERGE);
                            break;
                        }
                    }
                }
            }
        }
        Ok(())
    }
}

// ------------------------------------------------------------------------------------------
// Workload generation.

pub fn gen_ops(rng: &mut Rng, n: usize, nd: usize) -> Vec<Op> {
    let steps = rng.range(4, 30) as usize;
    // swarm: per-run subsets
    let allow_faults_disabled = nd > 0 && rng.chance(70, 100);
    let allow_all = rng.chance(70, 100);
    let allow_ctor = rng.chance(80, 100);
    let allow_clone = rng.chance(70, 100);
    let allow_closure_panic = rng.chance(25, 100);
    let mut ops = Vec::with_capacity(steps);
    let mut next_val: u64 = 1000 + rng.below(1000) * 1000; // unique values run-wide
    let mut fresh = |k: u64| {
        let v = next_val;
        next_val += k.max(1) + 7;
        v
    };
    let full: u64 = if n >= 64 { u64::MAX } else { (1u64 << n) - 1 };
    for _ in 0..steps {
        let h = rng.usize_below(MAX_TABLES);
        let w = [
            if allow_ctor { 5u32 } else { 0 }, // new
            if allow_ctor { 3 } else { 0 },    // filled
            if allow_ctor { 1 } else { 0 },    // default
            if allow_ctor { 5 } else { 0 },    // from_closure
            if allow_ctor { 5 } else { 0 },    // transform
            if allow_clone { 5 } else { 0 },   // clone
            if allow_clone { 1 } else { 0 },   // drop
            24,                                // set
            8,                                 // modify
            6,                                 // replace
            12,                                // get
            if allow_faults_disabled { 5 } else { 0 },
            if allow_faults_disabled { 4 } else { 0 },
            if allow_all { 7 } else { 0 },
            if allow_all { 9 } else { 0 },
            if allow_clone { 4 } else { 1 },
            if allow_closure_panic { 2 } else { 0 },
            if allow_closure_panic { 2 } else { 0 },
            if allow_clone { 4 } else { 1 }, // eq_probe
            if allow_clone { 5 } else { 0 }, // clone_from
        ];
        let kind = rng.weighted(&w);
        let p = if n > 0 { rng.usize_below(n) } else { 0 };
        let mask = {
            // fault subsets: none, all, only first, only last, first+later, random
            match rng.weighted(&[20, 6, 12, 12, 15, 35]) {
                0 => 0,
                1 => full,
                2 => 1 & full,
                3 => {
                    if n > 64 {
                        1u64 << 63
                    } else if n > 0 {
                        1u64 << (n - 1)
                    } else {
                        0
                    }
                }
                4 => (1 | (1u64 << rng.usize_below(n.max(1).min(64)))) & full,
                _ => rng.next_u64() & full,
            }
        };
        let how = rng.below(3) as u8;
        let op = match kind {
            0 => Op::New(h, fresh(n as u64)),
            1 => Op::Filled(h, fresh(1)),
            2 => Op::Default(h),
            3 => Op::FromClosure(h, fresh(n as u64)),
            4 => Op::Transform(h, rng.below(1000), rng.chance(1, 2)),
            5 => Op::Clone(h),
            6 => Op::Drop(h),
            7 => Op::Set(h, p, fresh(1)),
            8 => Op::Modify(h, p, 1 + rng.below(5)),
            9 => Op::Replace(h, p, fresh(1)),
            10 => Op::Get(h, p),
            11 => Op::IdxDisabled(h, rng.usize_below(nd.max(1))),
            12 => Op::IdxMutDisabled(h, rng.usize_below(nd.max(1)), fresh(1)),
            13 => Op::All(h, mask, how),
            14 => Op::AllOk(h, mask, how),
            15 => Op::Eq(h, rng.usize_below(MAX_TABLES)),
            16 => Op::ClosurePanic(h, p),
            17 => Op::TransformPanic(h, p),
            18 => Op::EqProbe(h, p, fresh(1)),
            _ => Op::CloneFrom(h, rng.usize_below(MAX_TABLES)),
        };
        ops.push(op);
    }
    ops
}

// ------------------------------------------------------------------------------------------

fn find_case<'a>(cases: &'a [Case], name: &str) -> Option<&'a Case> {
    cases.iter().find(|c| c.name == name)
}

pub fn run_script(case: &Case, ops: &[Op], keep_log: bool) -> (Result<(), Failure>, Vec<String>) {
    let mut ex = Exec::new(case, keep_log);
    let r = ex.run(ops, None);
    (r, ex.log.unwrap_or_default())
}

fn minimise(case: &Case, ops: Vec<Op>, sig: &str) -> Vec<Op> {
    let same = |cand: &[Op]| -> bool {
        match run_script(case, cand, false).0 {
            Err(f) => f.signature() == sig,
            Ok(()) => false,
        }
    };
    let mut ops = ops;
    if let (Err(f), _) = run_script(case, &ops, false) {
        ops.truncate(f.step.max(1));
    }
    let mut ops = ddmin(ops, |c| same(c));
    // shrink fault masks: fewer planted slots
    for i in 0..ops.len() {
        if let Op::All(h, m, how) | Op::AllOk(h, m, how) = ops[i].clone() {
            let is_ok = matches!(ops[i], Op::AllOk(..));
            let mut m = m;
            for bit in 0..64 {
                if (m >> bit) & 1 == 1 {
                    let cand_m = m & !(1u64 << bit);
                    let mut cand = ops.clone();
                    cand[i] = if is_ok { Op::AllOk(h, cand_m, how) } else { Op::All(h, cand_m, how) };
                    if same(&cand) {
                        m = cand_m;
                        ops = cand;
                    }
                }
            }
            for cand_how in 0..how {
                let mut cand = ops.clone();
                cand[i] = if is_ok { Op::AllOk(h, m, cand_how) } else { Op::All(h, m, cand_how) };
                if same(&cand) {
                    ops = cand;
                    break;
                }
            }
        }
    }
    ddmin(ops, |c| same(c))
}

/// every case of the corpus this binary was built with: a run also touches a table of the NEXT case's enum between its
/// own operations (two table types in use on one thread must not influence each other)
pub static ALL_CASES: std::sync::OnceLock<&'static [Case]> = std::sync::OnceLock::new();

pub fn main(cases: &'static [Case]) -> ! {
    let _ = ALL_CASES.set(cases);
    let cli = parse_cli();
    quiet_panics();
    println!("sim_c10 seed={} profile={} corpus={} cases={} tier={}", cli.seed, PROFILE, cli.corpus_tag, cases.len(), cli.tier);
    if let Some(path) = &cli.replay {
        let rf = read_replay(path).unwrap_or_else(|e| {
            eprintln!("HARNESS-ERROR {}", e);
            std::process::exit(2)
        });
        let case = find_case(cases, &rf.case).unwrap_or_else(|| {
            eprintln!("HARNESS-ERROR unknown case {} in corpus {}", rf.case, cli.corpus_tag);
            std::process::exit(2)
        });
        let ops: Vec<Op> = rf.script.iter().map(|l| Op::parse(l)).collect::<Result<_, _>>().unwrap_or_else(|e| {
            eprintln!("HARNESS-ERROR {}", e);
            std::process::exit(2)
        });
        let (r, log) = run_script(case, &ops, true);
        println!("case {} (enabled={}, disabled={}) {}", case.name, case.n, case.n_disabled, case.desc);
        for l in log {
            println!("  {}", l);
        }
        match r {
            Err(f) => {
                println!("REPLAY-FAILS oracle={} signature={} step={} expected={} observed={}", f.oracle, f.signature(), f.step, f.expected, f.observed);
                std::process::exit(1)
            }
            Ok(()) => {
                println!("REPLAY-PASSES");
                std::process::exit(0)
            }
        }
    }
    if cases.is_empty() {
        eprintln!("HARNESS-ERROR empty corpus");
        std::process::exit(2);
    }
    let t0 = now();
    let seed = cli.seed;
    let describe = |run: u64| -> Option<Violation> {
        let mut rng = Rng::for_run(seed, ENGINE_ID, 0, run);
        let case = &cases[rng.usize_below(cases.len())];
        let ops = gen_ops(&mut rng, case.n, case.n_disabled);
        Some(Violation { oracle: String::new(), signature: String::new(), run, case: case.name.to_string(), script: ops.iter().map(|o| o.line()).collect(), expected: String::new(), observed: String::new() })
    };
    let mut stats = run_parallel(&cli, "C10", NAMES, &describe, |run, st| {
        let mut rng = Rng::for_run(seed, ENGINE_ID, 0, run);
        let ci = rng.usize_below(cases.len());
        let case = &cases[ci];
        let ops = gen_ops(&mut rng, case.n, case.n_disabled);
        let keep = run < 3;
        let mut ex = Exec::new(case, keep);
        let r = ex.run(&ops, Some(st));
        for o in &ops {
            // state measure: (enum, op kind, key) tuples
            let key = match o {
                Op::Set(_, p, _) | Op::Modify(_, p, _) | Op::Replace(_, p, _) | Op::Get(_, p) | Op::EqProbe(_, p, _) => (*p % case.n.max(1)) as u64,
                Op::IdxDisabled(_, d) | Op::IdxMutDisabled(_, d, _) => 10_000 + (*d % case.n_disabled.max(1)) as u64,
                _ => 65_535,
            };
            st.cover.insert(((ci as u64) << 32) | ((o.kind() as u64) << 16) | key);
        }
        if keep {
            st.samples.push(
                Json::obj()
                    .set("run", Json::u(run))
                    .set("case", Json::s(case.name))
                    .set("enum", Json::s(case.desc))
                    .set("history", Json::strs(ex.log.clone().unwrap_or_default())),
            );
        }
        if let Err(f) = r {
            st.violation(Violation {
                oracle: f.oracle.to_string(),
                signature: f.signature(),
                run,
                case: case.name.to_string(),
                script: ops.iter().map(|o| o.line()).collect(),
                expected: f.expected,
                observed: f.observed,
            });
        }
        st.end_run(run, ex.trace, ex.nontrivial, ex.steps);
    });
    let wall = t0.elapsed().as_secs_f64();
    let mut candidates = Vec::new();
    let vs: Vec<Violation> = stats.violations.values().cloned().collect();
    for v in vs {
        let case = find_case(cases, &v.case).unwrap();
        let ops: Vec<Op> = v.script.iter().map(|l| Op::parse(l).unwrap()).collect();
        let orig_len = ops.len();
        let min_ops = if cli.no_minimise { ops } else { minimise(case, ops, &v.signature) };
        let (r, _) = run_script(case, &min_ops, false);
        let (exp, obs) = match r {
            Err(f) => (f.expected, f.observed),
            Ok(()) => (v.expected.clone(), v.observed.clone()),
        };
        let mv = Violation { script: min_ops.iter().map(|o| o.line()).collect(), expected: exp, observed: obs, ..v.clone() };
        let fname = format!("{}/C10-{}-{}-{}-{}.json", cli.replay_dir, PROFILE, cli.seed, mv.run, crate::c05::sanitize(&mv.signature));
        let _ = std::fs::create_dir_all(&cli.replay_dir);
        let j = replay_json("C10", &cli, &mv, orig_len).set("enum", Json::s(case.desc));
        if let Err(e) = std::fs::write(&fname, j.pretty()) {
            eprintln!("HARNESS-ERROR cannot write {}: {}", fname, e);
            std::process::exit(2);
        }
        println!("CANDIDATE property=C10 signature={} oracle={} replay={}", mv.signature, mv.oracle, fname);
        candidates.push(Json::obj().set("signature", Json::s(mv.signature.clone())).set("oracle", Json::s(mv.oracle.clone())).set("replay", Json::s(fname)).set("case", Json::s(mv.case.clone())).set("script", Json::strs(mv.script.iter().cloned())));
    }
    let extra = Json::obj()
        .set("cases", Json::u(cases.len() as u64))
        .set("distinct_enum_opkind_key_tuples", Json::u(stats.cover.len() as u64));
    let total_v = stats.violation_total;
    write_partial(&cli, "C10", "sim_c10", &mut stats, wall, extra, candidates);
    println!("sim_c10 done runs={} steps={} violations={} wall={:.2}s", stats.runs, stats.steps, total_v, wall);
    std::process::exit(if total_v > 0 { 1 } else { 0 })
}

//! C11 — default and transparent variants capture and forward their inner value verbatim.
//!
//! World: simulated caller (format specs / to_string / from_str / try_from / as_ref / into),
//! the real derived forwarding code, a fault-injecting `fmt::Write` sink, and a scripted inner
//! value (`Probe`) that records what reaches it, chunks its output and can fail on its own.
use crate::fmtsim::*;
use crate::harness::*;
use crate::json::Json;
use crate::rng::Rng;
use crate::specs::SPECS;
use core::fmt;
use std::cell::RefCell;

pub const ENGINE_ID: u64 = 11;

// ------------------------------------------------------------------------------------------
// The scripted inner value.

#[derive(Clone, Debug, PartialEq)]
pub enum Event {
    From(String),
    Fmt { width: Option<usize>, precision: Option<usize>, fill: char, align: u8, plus: bool, minus: bool, alt: bool, zero: bool },
    AsRef,
    IntoStatic,
}

thread_local! {
    static LOG: RefCell<Vec<Event>> = const { RefCell::new(Vec::new()) };
}
pub fn log_clear() {
    LOG.with(|l| l.borrow_mut().clear());
}
pub fn log_take() -> Vec<Event> {
    LOG.with(|l| std::mem::take(&mut *l.borrow_mut()))
}
fn log_push(e: Event) {
    LOG.with(|l| l.borrow_mut().push(e));
}

#[derive(Clone, Debug, PartialEq)]
pub struct Probe {
    pub text: String,
    pub static_text: &'static str,
    /// 0 = f.pad(text), 1 = up to three write_str chunks, 2 = write!(f, "{}|{}", text, len)
    pub style: u8,
    /// inner-originated error before chunk k (style 1: k in 0..=3; other styles: 0 = before any
    /// output, >0 = after all output); -1 = never
    pub err_at: i8,
}

impl Probe {
    pub fn scripted(text_idx: u64, style: u8, err_at: i8) -> Probe {
        let t = pick_str(text_idx);
        Probe { text: t.to_string(), static_text: t, style: style % 3, err_at }
    }
}

impl Default for Probe {
    fn default() -> Probe {
        Probe { text: String::new(), static_text: "", style: 0, err_at: -1 }
    }
}

impl From<&str> for Probe {
    fn from(s: &str) -> Probe {
        log_push(Event::From(s.to_string()));
        Probe { text: s.to_string(), static_text: "", style: 0, err_at: -1 }
    }
}

/// The property says the captured input is converted with `From<&str>`: an owned-string conversion exists too and
/// gives a visibly different value (and no `From` event).
impl From<String> for Probe {
    fn from(s: String) -> Probe {
        Probe { text: format!("<owned>{}", s), static_text: "", style: 0, err_at: -1 }
    }
}

impl fmt::Display for Probe {
    fn fmt(&self, f: &mut fmt::Formatter<'_>) -> fmt::Result {
        log_push(Event::Fmt {
            width: f.width(),
            precision: f.precision(),
            fill: f.fill(),
            align: match f.align() {
                None => 0,
                Some(fmt::Alignment::Left) => 1,
                Some(fmt::Alignment::Center) => 2,
                Some(fmt::Alignment::Right) => 3,
            },
            plus: f.sign_plus(),
            minus: f.sign_minus(),
            alt: f.alternate(),
            zero: f.sign_aware_zero_pad(),
        });
        match self.style {
            0 => {
                if self.err_at == 0 {
                    return Err(fmt::Error);
                }
                f.pad(&self.text)?;
                if self.err_at > 0 {
                    return Err(fmt::Error);
                }
                Ok(())
            }
            1 => {
                // split at char boundaries into up to three chunks
                let chars: Vec<char> = self.text.chars().collect();
                let n = chars.len();
                let cuts = [0, n / 3, 2 * n / 3, n];
                for k in 0..3 {
                    if self.err_at == k as i8 {
                        return Err(fmt::Error);
                    }
                    let chunk: String = chars[cuts[k]..cuts[k + 1]].iter().collect();
                    f.write_str(&chunk)?;
                }
                if self.err_at >= 3 {
                    return Err(fmt::Error);
                }
                Ok(())
            }
            _ => {
                if self.err_at == 0 {
                    return Err(fmt::Error);
                }
                write!(f, "{}|{}", self.text, self.text.len())?;
                if self.err_at > 0 {
                    return Err(fmt::Error);
                }
                Ok(())
            }
        }
    }
}

impl AsRef<str> for Probe {
    fn as_ref(&self) -> &str {
        log_push(Event::AsRef);
        &self.text
    }
}

impl<'a> From<&'a Probe> for &'static str {
    fn from(p: &'a Probe) -> &'static str {
        log_push(Event::IntoStatic);
        p.static_text
    }
}

/// A real, uninstrumented nested enum used as an inner value; its impls are hand written here so
/// that the inner side is independent of the derives under test.
#[derive(Clone, Copy, Debug, PartialEq, Default)]
pub enum Nested {
    #[default]
    Zero,
    One,
    LongerName,
    Ünï,
}
impl Nested {
    pub const ALL: [Nested; 4] = [Nested::Zero, Nested::One, Nested::LongerName, Nested::Ünï];
    pub fn name(&self) -> &'static str {
        match self {
            Nested::Zero => "zero",
            Nested::One => "One",
            Nested::LongerName => "longer name",
            Nested::Ünï => "ünï",
        }
    }
}
impl fmt::Display for Nested {
    fn fmt(&self, f: &mut fmt::Formatter<'_>) -> fmt::Result {
        f.pad(self.name())
    }
}
impl AsRef<str> for Nested {
    fn as_ref(&self) -> &str {
        self.name()
    }
}
impl<'a> From<&'a Nested> for &'static str {
    fn from(n: &'a Nested) -> &'static str {
        n.name()
    }
}
impl From<&str> for Nested {
    fn from(s: &str) -> Nested {
        Nested::ALL[s.len() % 4]
    }
}

impl From<String> for Nested {
    fn from(s: String) -> Nested {
        Nested::ALL[(s.len() + 1) % 4]
    }
}

pub mod fake {
    //! A user type that merely happens to be called `String`: it derefs to `str` but has a `Display` of its own.
    use core::fmt;
    #[derive(Clone, Debug, PartialEq, Default)]
    pub struct String(pub std::string::String);
    impl From<&str> for String {
        fn from(s: &str) -> String {
            String(s.to_string())
        }
    }
    impl From<std::string::String> for String {
        fn from(s: std::string::String) -> String {
            String(format!("<owned>{}", s))
        }
    }
    impl fmt::Display for String {
        fn fmt(&self, f: &mut fmt::Formatter<'_>) -> fmt::Result {
            // deliberately not what `str` would print, and it ignores the caller's padding
            write!(f, "<{}>", self.0)
        }
    }
    impl AsRef<str> for String {
        fn as_ref(&self) -> &str {
            &self.0
        }
    }
    impl core::ops::Deref for String {
        type Target = str;
        fn deref(&self) -> &str {
            &self.0
        }
    }
}

/// Custom parse error for enums that declare `parse_err_ty` / `parse_err_fn`.
#[derive(Debug, Clone, PartialEq)]
pub struct MyErr(pub String);
pub fn my_err(s: &str) -> MyErr {
    MyErr(s.to_string())
}

/// Type-erased inner value.
#[derive(Clone, Debug, PartialEq)]
pub enum InnerVal {
    Probe(Probe),
    Str(String),
    BoxStr(Box<str>),
    RcStr(std::rc::Rc<str>),
    Fake(fake::String),
    Static(&'static str),
    U64(u64),
    I32(i32),
    F64(f64),
    Nested(Nested),
}

impl InnerVal {
    pub fn display(&self) -> &dyn fmt::Display {
        match self {
            InnerVal::Probe(p) => p,
            InnerVal::Str(s) => s,
            InnerVal::BoxStr(s) => s,
            InnerVal::RcStr(s) => s,
            InnerVal::Fake(s) => s,
            InnerVal::Static(s) => s,
            InnerVal::U64(v) => v,
            InnerVal::I32(v) => v,
            InnerVal::F64(v) => v,
            InnerVal::Nested(n) => n,
        }
    }
    /// what the inner value's own `AsRef<str>` returns
    pub fn as_ref_str(&self) -> Option<String> {
        match self {
            InnerVal::Probe(p) => Some(p.text.clone()),
            InnerVal::Str(s) => Some(s.clone()),
            InnerVal::BoxStr(s) => Some(s.to_string()),
            InnerVal::RcStr(s) => Some(s.to_string()),
            InnerVal::Fake(s) => Some(s.0.clone()),
            InnerVal::Static(s) => Some(s.to_string()),
            InnerVal::Nested(n) => Some(n.name().to_string()),
            _ => None,
        }
    }
    /// what the inner value's own conversion to `&'static str` returns
    pub fn into_static(&self) -> Option<&'static str> {
        match self {
            InnerVal::Probe(p) => Some(p.static_text),
            InnerVal::Static(s) => Some(s),
            InnerVal::Nested(n) => Some(n.name()),
            _ => None,
        }
    }
    pub fn build(kind: &str, a: u64, b: u64, c: i64) -> InnerVal {
        match kind {
            "probe" => InnerVal::Probe(Probe::scripted(a, b as u8, c as i8)),
            "string" => InnerVal::Str(String::pick(a)),
            "boxstr" => InnerVal::BoxStr(<Box<str>>::pick(a)),
            "rcstr" => InnerVal::RcStr(std::rc::Rc::from(pick_str(a))),
            "fakestring" => InnerVal::Fake(fake::String(pick_str(a).to_string())),
            "static" => InnerVal::Static(pick_str(a)),
            "u64" => InnerVal::U64(u64::pick(a)),
            "i32" => InnerVal::I32(i32::pick(a)),
            "f64" => InnerVal::F64(f64::pick(a)),
            _ => InnerVal::Nested(Nested::ALL[(a % 4) as usize]),
        }
    }
}

pub trait Sub {
    fn display(&self) -> &dyn fmt::Display;
    /// index of the variant in the generator's list of *all declared* variants
    fn variant(&self) -> usize;
    /// the inner value if this is a default/transparent variant
    fn inner(&self) -> Option<InnerVal>;
    fn as_ref_str(&self) -> Option<String>;
    /// IntoStaticStr by reference and by value
    fn into_static(&self) -> Option<(&'static str, &'static str)>;
    fn debug(&self) -> String;
    /// `value.to_string()` with method-call syntax on the concrete type
    fn direct_to_string(&self) -> String;
}

pub struct VInfo {
    pub ident: &'static str,
    /// "default" | "transparent" | "default_transparent" | "other" | "disabled"
    pub role: &'static str,
    /// "unit" | "tuple" | "named"
    pub form: &'static str,
    pub has_to_string: bool,
}

pub struct Case {
    pub name: &'static str,
    pub desc: &'static str,
    /// "probe" | "string" | "boxstr" | "static" | "u64" | "i32" | "f64" | "nested"
    pub inner_kind: &'static str,
    pub variants: &'static [VInfo],
    /// spellings claimed by enabled non-default variants: (literal, ascii-case-insensitive)
    pub claims: &'static [(&'static str, bool)],
    /// spellings of disabled variants (must be captured like any other unclaimed input)
    pub disabled_spellings: &'static [&'static str],
    /// further strings worth trying as inputs: the default variant's own spellings (its identifier as
    /// converted by serialize_all, its serialize/to_string literals) - unclaimed, so they must be captured
    pub extra_inputs: &'static [&'static str],
    pub has_from_str: bool,
    pub has_as_ref: bool,
    pub has_into_static: bool,
    /// builds variant `v` (a default/transparent one) around `inner`
    pub make: fn(usize, InnerVal) -> Box<dyn Sub>,
    /// FromStr (false) or TryFrom<&str> (true)
    pub parse: fn(&str, bool) -> Result<Box<dyn Sub>, String>,
}

impl Case {
    pub fn default_variant(&self) -> Option<usize> {
        self.variants.iter().position(|v| v.role == "default" || v.role == "default_transparent")
    }
    pub fn forwarding_variants(&self) -> Vec<usize> {
        // variants whose Display forwards to the inner value
        self.variants
            .iter()
            .enumerate()
            .filter(|(_, v)| v.role == "transparent" || v.role == "default_transparent" || (v.role == "default" && !v.has_to_string))
            .map(|(i, _)| i)
            .collect()
    }
    pub fn transparent_variants(&self) -> Vec<usize> {
        self.variants.iter().enumerate().filter(|(_, v)| v.role == "transparent" || v.role == "default_transparent").map(|(i, _)| i).collect()
    }
    pub fn claimed(&self, s: &str) -> bool {
        self.claims.iter().any(|(lit, ins)| if *ins { lit.eq_ignore_ascii_case(s) } else { *lit == s })
    }
}

// ------------------------------------------------------------------------------------------

#[derive(Clone, Debug, PartialEq)]
pub enum Leg {
    /// Display forwarding: variant, inner (a, b, c), call, plan
    Display { variant: usize, inner: (u64, u64, i64), call: Call, plan: Plan },
    /// AsRef<str> / Into<&'static str> on a transparent variant
    Conv { variant: usize, inner: (u64, u64, i64) },
    /// capture by the default variant
    /// `warm`: an input parsed (and thrown away) before the checked one - whatever an earlier parse leaves behind must
    /// not reach the next one
    Capture { input: String, try_from: bool, warm: Option<String> },
}

#[derive(Clone, Debug, PartialEq)]
pub enum Call {
    Spec(usize, usize, usize),
    ToString,
}

fn hex(s: &str) -> String {
    let mut o = String::new();
    for b in s.as_bytes() {
        o.push_str(&format!("{:02x}", b));
    }
    if o.is_empty() {
        o.push('-');
    }
    o
}
fn unhex(h: &str) -> Result<String, String> {
    if h == "-" {
        return Ok(String::new());
    }
    let b: Result<Vec<u8>, _> = (0..h.len() / 2).map(|i| u8::from_str_radix(&h[2 * i..2 * i + 2], 16)).collect();
    String::from_utf8(b.map_err(|e| e.to_string())?).map_err(|e| e.to_string())
}

impl Leg {
    pub fn lines(&self) -> Vec<String> {
        match self {
            Leg::Display { variant, inner, call, plan } => vec![
                "leg display".into(),
                format!("variant {}", variant),
                format!("inner {} {} {}", inner.0, inner.1, inner.2),
                match call {
                    Call::Spec(i, w, p) => format!("call spec {} {} {}", i, w, p),
                    Call::ToString => "call to_string".into(),
                },
                plan.line(),
            ],
            Leg::Conv { variant, inner } => vec!["leg conv".into(), format!("variant {}", variant), format!("inner {} {} {}", inner.0, inner.1, inner.2)],
            Leg::Capture { input, try_from, warm } => {
                let mut v = vec!["leg capture".into(), format!("input_hex {}", hex(input)), format!("via {}", if *try_from { "try_from" } else { "from_str" })];
                if let Some(w) = warm {
                    v.push(format!("warmup_hex {}", hex(w)));
                }
                v
            }
        }
    }
    pub fn parse(lines: &[String]) -> Result<Leg, String> {
        let mut leg = "";
        let mut variant = 0usize;
        let mut inner = (0u64, 0u64, -1i64);
        let mut call = Call::Spec(0, 0, 0);
        let mut plan = Plan::None;
        let mut input = String::new();
        let mut try_from = false;
        let mut warm: Option<String> = None;
        for l in lines {
            let p: Vec<&str> = l.split_whitespace().collect();
            let num = |i: usize| -> Result<i64, String> { p.get(i).ok_or(format!("missing arg in {:?}", l))?.parse::<i64>().map_err(|e| format!("{:?}: {}", l, e)) };
            match p.first().copied() {
                Some("leg") => {
                    leg = match p.get(1).copied() {
                        Some("display") => "display",
                        Some("conv") => "conv",
                        Some("capture") => "capture",
                        o => return Err(format!("bad leg {:?}", o)),
                    }
                }
                Some("variant") => variant = num(1)? as usize,
                Some("inner") => inner = (num(1)? as u64, num(2)? as u64, num(3)?),
                Some("call") => {
                    call = match p.get(1).copied() {
                        Some("spec") => Call::Spec(num(2)? as usize, num(3)? as usize, num(4)? as usize),
                        Some("to_string") => Call::ToString,
                        o => return Err(format!("bad call {:?}", o)),
                    }
                }
                Some("plan") => plan = Plan::parse(p.get(1).copied().unwrap_or("none"), num(2)? as u32)?,
                Some("input_hex") => input = unhex(p.get(1).copied().unwrap_or("-"))?,
                Some("via") => try_from = p.get(1).copied() == Some("try_from"),
                Some("warmup_hex") => warm = Some(unhex(p.get(1).copied().unwrap_or("-"))?),
                o => return Err(format!("bad line {:?}", o)),
            }
        }
        Ok(match leg {
            "display" => Leg::Display { variant, inner, call, plan },
            "conv" => Leg::Conv { variant, inner },
            "capture" => Leg::Capture { input, try_from, warm },
            _ => return Err("missing leg".into()),
        })
    }
}

pub const NAMES: &[&str] = &[
    "runs_display", "runs_conv", "runs_capture", "runs_display_fault_free", "runs_display_with_sink_plan",
    "fault_sink_refusals_fired", "fault_inner_err_fired", "fault_inner_err_and_sink_fault",
    "probe_inner_err_no_sink_fault", "probe_sink_refuses_inside_inner_chunk_2", "probe_flags_all_nondefault",
    "probe_flags_recorded", "probe_capture_disabled_variant_name", "probe_capture_case_flip_of_sensitive",
    "probe_capture_empty", "probe_capture_multibyte", "probe_capture_whitespace_edges", "probe_capture_long_input",
    "probe_capture_claimed_input_no_oracle", "probe_capture_unclaimed", "probe_real_inner_numeric", "probe_transparent_named_form",
    "probe_default_named_form", "probe_to_string_call", "probe_inner_type_is_a_type_parameter", "probe_inner_borrows_for_a_lifetime_parameter",
    "probe_burst_of_failed_display_calls_first",
];
const R_DISPLAY: usize = 0;
const R_CONV: usize = 1;
const R_CAPTURE: usize = 2;
const R_DISP_FF: usize = 3;
const R_DISP_PLAN: usize = 4;
const F_SINK: usize = 5;
const F_INNER: usize = 6;
const F_BOTH: usize = 7;
const P_INNER_NOSINK: usize = 8;
const P_CHUNK2: usize = 9;
const P_FLAGS_ALL: usize = 10;
const P_FLAGS_REC: usize = 11;
const P_CAP_DISABLED: usize = 12;
const P_CAP_FLIP: usize = 13;
const P_CAP_EMPTY: usize = 14;
const P_CAP_MB: usize = 15;
const P_CAP_WS: usize = 16;
const P_CAP_LONG: usize = 17;
const P_CAP_CLAIMED: usize = 18;
const P_CAP_UNCLAIMED: usize = 19;
const P_NUMERIC: usize = 20;
const P_T_NAMED: usize = 21;
const P_D_NAMED: usize = 22;
const P_TOSTRING: usize = 23;
const P_GENERIC: usize = 24;
const P_BORROWED: usize = 25;
const P_BURST: usize = 26;

pub struct Failure {
    pub oracle: &'static str,
    pub sig: String,
    pub expected: String,
    pub observed: String,
}

pub struct RunInfo {
    pub trace: TraceHash,
    pub nontrivial: bool,
    pub log: Vec<String>,
    pub cover: u64,
}

fn fmt_events(ev: &[Event]) -> Vec<&Event> {
    ev.iter().filter(|e| matches!(e, Event::Fmt { .. })).collect()
}

pub fn exec(case: &Case, leg: &Leg, mut stats: Option<&mut Stats>, keep_log: bool) -> (Result<(), Failure>, RunInfo) {
    let mut info = RunInfo { trace: TraceHash::new(), nontrivial: false, log: Vec::new(), cover: 0 };
    info.trace.s(case.name);
    match leg {
        Leg::Display { variant, inner, call, plan } => {
            let fw = case.forwarding_variants();
            if fw.is_empty() {
                return (Ok(()), info);
            }
            let vi = fw[*variant % fw.len()];
            let v = &case.variants[vi];
            let fclass = if plan.is_none() { "nofault" } else { "fault" };
            let sig = |o: &str| format!("{}:display:{}:{}:{}", o, v.role, v.form, fclass);
            let mk_fail = |oracle: &'static str, e: String, o: String| Failure { oracle, sig: sig(oracle), expected: e, observed: o };
            let iv = InnerVal::build(case.inner_kind, inner.0, inner.1, inner.2);
            info.trace.u(vi as u64);
            info.trace.u(inner.0);
            info.trace.u(inner.1);
            info.trace.u(inner.2 as u64);
            if let Some(st) = stats.as_deref_mut() {
                st.hit(R_DISPLAY);
                if case.desc.contains("<T:") {
                    st.hit(P_GENERIC);
                }
                if case.desc.contains("<'a>") {
                    st.hit(P_BORROWED);
                }
                if matches!(iv, InnerVal::U64(_) | InnerVal::I32(_) | InnerVal::F64(_)) {
                    st.hit(P_NUMERIC);
                }
                if v.form == "named" {
                    st.hit(if v.role == "default" { P_D_NAMED } else { P_T_NAMED });
                }
            }
            let subject = match catch(|| (case.make)(vi, iv.clone())) {
                Ok(s) => s,
                Err(m) => return (Err(mk_fail("harness_make", "value".into(), m)), info),
            };
            if keep_log {
                info.log.push(format!("value = {}", subject.debug()));
            }
            // A burst of FAILED calls first, in about one run out of eight (decided by the value index, so that it is part
            // of the script): 2, 130 or 300 times the same value is formatted into a sink that refuses everything. Whatever
            // a failed call leaves behind must not reach the next call.
            let burst = match inner.0 % 16 {
                7 => 130,
                8 => 300,
                9 => 2,
                _ => 0,
            };
            if burst > 0 {
                for _ in 0..burst {
                    let mut dead = SimSink::new(Plan::RefuseFromCall(0));
                    let _ = catch(|| fmt::Write::write_fmt(&mut dead, format_args!("{}", subject.display())));
                }
                log_clear();
                if let Some(st) = stats.as_deref_mut() {
                    st.hit(P_BURST);
                }
            }
            match call {
                Call::ToString => {
                    if let Some(st) = stats.as_deref_mut() {
                        st.hit(P_TOSTRING);
                        st.hit(R_DISP_FF);
                    }
                    // reference: the inner value's own to_string (may panic if the inner Display errs)
                    log_clear();
                    let want = catch(|| iv.display().to_string());
                    let ev_ref = log_take();
                    log_clear();
                    let got = catch(|| {
                        let a = subject.display().to_string();
                        a
                    });
                    let ev_sut = log_take();
                    if let (Ok(a), Ok(b)) = (&got, catch(|| subject.direct_to_string())) {
                        if *a != b {
                            return (Err(mk_fail("output", format!("value.to_string() == {:?} (what Display prints)", a), format!("{:?}", b))), info);
                        }
                    }
                    log_clear();
                    if keep_log {
                        info.log.push(format!("to_string() -> {:?}   inner.to_string() -> {:?}", got, want));
                    }
                    info.cover = 1 << 20;
                    match (&got, &want) {
                        (Ok(g), Ok(w)) => {
                            info.trace.s(g);
                            info.nontrivial = !g.is_empty();
                            if g != w {
                                return (Err(mk_fail("output", format!("{:?}", w), format!("{:?}", g))), info);
                            }
                        }
                        (Err(_), Err(_)) => {}
                        (Ok(g), Err(_)) => return (Err(mk_fail("error_swallowed", "panic (inner Display returned Err)".into(), format!("{:?}", g))), info),
                        (Err(m), Ok(_)) => return (Err(mk_fail("panic", "no panic".into(), format!("panic: {}", m))), info),
                    }
                    if fmt_events(&ev_ref) != fmt_events(&ev_sut) {
                        return (Err(mk_fail("formatter_state", format!("{:?}", fmt_events(&ev_ref)), format!("{:?}", fmt_events(&ev_sut)))), info);
                    }
                    (Ok(()), info)
                }
                Call::Spec(i, w, p) => {
                    let sp = &SPECS[*i % SPECS.len()];
                    // reference A: inner formatted directly, fault-free sink (defines the expected bytes)
                    log_clear();
                    let mut rs = SimSink::new(Plan::None);
                    let rr = match catch(|| (sp.f)(iv.display(), &mut rs, *w, *p)) {
                        Ok(r) => r,
                        Err(m) => return (Err(mk_fail("harness_reference", "reference formatting does not panic".into(), m)), info),
                    };
                    let ev_ref = log_take();
                    let ref_out = outcome(rr, rs);
                    let inner_errs = !ref_out.ok; // the sink never refused, so an Err is inner-originated
                    // system under test
                    log_clear();
                    let mut sink = SimSink::new(plan.clone());
                    let r = match catch(|| (sp.f)(subject.display(), &mut sink, *w, *p)) {
                        Ok(r) => r,
                        Err(m) => return (Err(mk_fail("panic", "no panic".into(), format!("panic: {}", m))), info),
                    };
                    let ev_sut = log_take();
                    let sut = outcome(r, sink);
                    info.nontrivial = !ref_out.accepted.is_empty();
                    info.trace.s(&ref_out.accepted);
                    info.trace.u(sut.ok as u64);
                    info.trace.s(&sut.accepted);
                    info.trace.u(sut.refused as u64);
                    if keep_log {
                        info.log.push(format!(
                            "spec {:?} w={} p={} under {} -> {} accepted {:?} refused {}   inner direct (fault-free) -> {} {:?}",
                            sp.text, w, p, plan.line(), if sut.ok { "Ok" } else { "Err" }, sut.accepted, sut.refused, if ref_out.ok { "Ok" } else { "Err" }, ref_out.accepted
                        ));
                        info.log.push(format!("formatter state seen by inner: via enum {:?} / direct {:?}", fmt_events(&ev_sut), fmt_events(&ev_ref)));
                    }
                    info.cover = ((sp.uses_w as u64) << 1 | sp.uses_p as u64) | (plan.class() << 4) | ((sut.ok as u64) << 8) | ((inner_errs as u64) << 9) | (((*i % SPECS.len()) as u64 / 4) << 12);
                    if let Some(st) = stats.as_deref_mut() {
                        if plan.is_none() {
                            st.hit(R_DISP_FF)
                        } else {
                            st.hit(R_DISP_PLAN)
                        }
                        if sut.refused > 0 {
                            st.add(F_SINK, sut.refused as u64);
                        }
                        if inner_errs {
                            st.hit(F_INNER);
                            if sut.refused == 0 {
                                st.hit(P_INNER_NOSINK);
                            } else {
                                st.hit(F_BOTH);
                            }
                        }
                        if let InnerVal::Probe(pr) = &iv {
                            if pr.style == 1 && sut.refused > 0 && !sut.accepted.is_empty() && sut.accepted.len() < ref_out.accepted.len() {
                                st.hit(P_CHUNK2);
                            }
                        }
                        if let Some(Event::Fmt { width, precision, fill, align, plus, alt, zero, .. }) = fmt_events(&ev_sut).first() {
                            st.hit(P_FLAGS_REC);
                            if width.is_some() && precision.is_some() && *fill != ' ' && *align != 0 && (*plus || *alt || *zero) {
                                st.hit(P_FLAGS_ALL);
                            }
                        }
                    }
                    // oracle 1a: the Formatter state handed to the inner value is identical
                    let (fe_ref, fe_sut) = (fmt_events(&ev_ref), fmt_events(&ev_sut));
                    if sut.refused == 0 {
                        if fe_sut != fe_ref {
                            return (Err(mk_fail("formatter_state", format!("{:?}", fe_ref), format!("{:?}", fe_sut))), info);
                        }
                    } else if let (Some(a), Some(b)) = (fe_sut.first(), fe_ref.first()) {
                        // under a sink fault only what did reach the inner value can be compared
                        if a != b {
                            return (Err(mk_fail("formatter_state", format!("{:?}", b), format!("{:?}", a))), info);
                        }
                    }
                    // oracle 1b: output / result
                    if sut.refused == 0 {
                        // the sink accepted everything: exactly what the inner value returns
                        if sut.ok != ref_out.ok {
                            let o = if ref_out.ok { "spurious_error" } else { "error_swallowed" };
                            return (Err(mk_fail(o, format!("{} (what the inner value returns)", if ref_out.ok { "Ok" } else { "Err" }), (if sut.ok { "Ok" } else { "Err" }).to_string())), info);
                        }
                        if sut.accepted != ref_out.accepted {
                            return (Err(mk_fail("output", format!("{:?}", ref_out.accepted), format!("{:?}", sut.accepted))), info);
                        }
                        (Ok(()), info)
                    } else {
                        match judge_against_reference(&sut, &ref_out.accepted) {
                            Ok(()) => (Ok(()), info),
                            Err((oracle, e, o)) => (Err(mk_fail(oracle, e, o)), info),
                        }
                    }
                }
            }
        }
        Leg::Conv { variant, inner } => {
            let tv = case.transparent_variants();
            if tv.is_empty() || !(case.has_as_ref || case.has_into_static) {
                return (Ok(()), info);
            }
            let vi = tv[*variant % tv.len()];
            let v = &case.variants[vi];
            let sig = |o: &str| format!("{}:conv:{}:{}:nofault", o, v.role, v.form);
            let mk_fail = |oracle: &'static str, e: String, o: String| Failure { oracle, sig: sig(oracle), expected: e, observed: o };
            let iv = InnerVal::build(case.inner_kind, inner.0, 0, -1);
            info.trace.u(vi as u64);
            info.trace.u(inner.0);
            if let Some(st) = stats.as_deref_mut() {
                st.hit(R_CONV);
            }
            let subject = match catch(|| (case.make)(vi, iv.clone())) {
                Ok(s) => s,
                Err(m) => return (Err(mk_fail("harness_make", "value".into(), m)), info),
            };
            info.cover = 2 << 20 | vi as u64;
            if case.has_as_ref {
                let got = match catch(|| subject.as_ref_str()) {
                    Ok(g) => g,
                    Err(m) => return (Err(mk_fail("panic", "no panic".into(), m)), info),
                };
                let want = iv.as_ref_str();
                if keep_log {
                    info.log.push(format!("as_ref() -> {:?}   inner.as_ref() -> {:?}", got, want));
                }
                if let Some(g) = &got {
                    info.trace.s(g);
                    info.nontrivial |= !g.is_empty();
                }
                if got != want {
                    return (Err(mk_fail("as_ref", format!("{:?}", want), format!("{:?}", got))), info);
                }
            }
            if case.has_into_static {
                let got = match catch(|| subject.into_static()) {
                    Ok(g) => g,
                    Err(m) => return (Err(mk_fail("panic", "no panic".into(), m)), info),
                };
                let want = iv.into_static();
                if keep_log {
                    info.log.push(format!("<&'static str>::from(&e), from(e) -> {:?}   inner -> {:?}", got, want));
                }
                if let (Some((a, b)), Some(w)) = (got, want) {
                    info.trace.s(a);
                    info.nontrivial |= !a.is_empty();
                    if a != w || b != w {
                        return (Err(mk_fail("into_static", format!("{:?}", w), format!("by ref {:?}, by value {:?}", a, b))), info);
                    }
                }
            }
            (Ok(()), info)
        }
        Leg::Capture { input, try_from, warm } => {
            let dv = match case.default_variant() {
                Some(d) if case.has_from_str => d,
                _ => return (Ok(()), info),
            };
            // both parses read from ONE buffer (same address, and the same length whenever the two inputs are equally
            // long): the way a caller's read_line loop hands its lines to from_str
            let mut buf = String::with_capacity(input.len().max(warm.as_ref().map_or(0, |w| w.len())) + 8);
            if let Some(w) = warm {
                info.trace.s(w);
                buf.push_str(w);
                // the warm-up parse: not judged here (the same input is judged by the runs that check it)
                let _ = catch(|| {
                    let _ = (case.parse)(&buf, *try_from).map(|sub| sub.display().to_string());
                });
                log_clear();
                buf.clear();
            }
            buf.push_str(input);
            let v = &case.variants[dv];
            let sig = |o: &str| format!("{}:capture:{}:{}:nofault", o, v.role, v.form);
            let mk_fail = |oracle: &'static str, e: String, o: String| Failure { oracle, sig: sig(oracle), expected: e, observed: o };
            info.trace.s(input);
            info.trace.u(*try_from as u64);
            let claimed = case.claimed(input);
            if let Some(st) = stats.as_deref_mut() {
                st.hit(R_CAPTURE);
                st.hit(if claimed { P_CAP_CLAIMED } else { P_CAP_UNCLAIMED });
                if !claimed {
                    if case.disabled_spellings.iter().any(|d| d == input) {
                        st.hit(P_CAP_DISABLED);
                    }
                    if case.claims.iter().any(|(l, ins)| !*ins && l.eq_ignore_ascii_case(input)) {
                        st.hit(P_CAP_FLIP);
                    }
                    if input.is_empty() {
                        st.hit(P_CAP_EMPTY);
                    }
                    if !input.is_ascii() {
                        st.hit(P_CAP_MB);
                    }
                    if input.trim() != input {
                        st.hit(P_CAP_WS);
                    }
                    if input.len() >= 4096 {
                        st.hit(P_CAP_LONG);
                    }
                }
            }
            log_clear();
            let r = match catch(|| (case.parse)(&buf, *try_from)) {
                Ok(r) => r,
                Err(m) => return (Err(mk_fail("panic", "no panic".into(), m)), info),
            };
            let ev = log_take();
            info.cover = 3 << 20 | (claimed as u64) << 8 | (*try_from as u64);
            if keep_log {
                let shown: String = input.chars().take(80).collect();
                info.log.push(format!("{}({:?}{}) -> {}   claimed_by_other_variant={}", if *try_from { "try_from" } else { "from_str" }, shown, if input.len() > 80 { "..." } else { "" }, match &r { Ok(s) => format!("Ok({})", s.debug().chars().take(120).collect::<String>()), Err(e) => format!("Err({})", e) }, claimed));
            }
            if claimed {
                // what a claimed input must return is C01's statement, not C11's
                return (Ok(()), info);
            }
            info.nontrivial = !input.is_empty();
            let sub = match r {
                Ok(s) => s,
                Err(e) => return (Err(mk_fail("not_captured", "Ok(default variant)".into(), format!("Err({})", e))), info),
            };
            info.trace.u(sub.variant() as u64);
            if sub.variant() != dv {
                return (Err(mk_fail("not_captured", format!("default variant {}", v.ident), format!("variant {}", case.variants.get(sub.variant()).map(|x| x.ident).unwrap_or("?")))), info);
            }
            // the inner value holds exactly the input
            match sub.inner() {
                Some(iv) => {
                    let held = match &iv {
                        InnerVal::Probe(p) => Some(p.text.clone()),
                        InnerVal::Str(s) => Some(s.clone()),
                        InnerVal::BoxStr(s) => Some(s.to_string()),
                        InnerVal::RcStr(s) => Some(s.to_string()),
                        InnerVal::Fake(s) => Some(s.0.clone()),
                        _ => None,
                    };
                    if let Some(h) = held {
                        if h != *input {
                            return (Err(mk_fail("captured_value", format!("{:?}", input), format!("{:?}", h))), info);
                        }
                    }
                    if let InnerVal::Nested(n) = &iv {
                        // (converted with From<&str>: for this type that is a function of the input's length)
                        let want = Nested::from(input.as_str());
                        if *n != want {
                            return (Err(mk_fail("captured_value", format!("{:?}", want), format!("{:?}", n))), info);
                        }
                    }
                }
                None => return (Err(mk_fail("harness_inner", "inner value".into(), "none".into())), info),
            }
            if case.inner_kind == "probe" {
                let froms: Vec<&Event> = ev.iter().filter(|e| matches!(e, Event::From(_))).collect();
                if froms.len() != 1 || *froms[0] != Event::From(input.clone()) {
                    return (Err(mk_fail("from_str_calls", format!("exactly one From<&str> call with {:?}", input), format!("{:?}", froms))), info);
                }
            }
            // E::from_str(s)?.to_string() == s (default variant without to_string)
            if !v.has_to_string && matches!(case.inner_kind, "probe" | "string" | "boxstr" | "rcstr") {
                let back = match catch(|| sub.display().to_string()) {
                    Ok(b) => b,
                    Err(m) => return (Err(mk_fail("panic", "no panic".into(), m)), info),
                };
                if back != *input {
                    return (Err(mk_fail("round_trip", format!("{:?}", input), format!("{:?}", back))), info);
                }
            }
            (Ok(()), info)
        }
    }
}

// ------------------------------------------------------------------------------------------
// Workload generation.

fn flip_case(rng: &mut Rng, s: &str) -> String {
    s.chars()
        .map(|c| {
            if c.is_ascii_alphabetic() && rng.chance(1, 2) {
                if c.is_ascii_lowercase() {
                    c.to_ascii_uppercase()
                } else {
                    c.to_ascii_lowercase()
                }
            } else {
                c
            }
        })
        .collect()
}

fn one_edit(rng: &mut Rng, s: &str) -> String {
    let mut chars: Vec<char> = s.chars().collect();
    let alphabet: Vec<char> = "aZ0 _-éK\u{212A}ſı".chars().collect();
    match rng.below(4) {
        0 if !chars.is_empty() => {
            let i = rng.usize_below(chars.len());
            chars.remove(i);
        }
        1 => {
            let i = rng.usize_below(chars.len() + 1);
            chars.insert(i, *rng.pick(&alphabet));
        }
        2 if !chars.is_empty() => {
            let i = rng.usize_below(chars.len());
            chars[i] = *rng.pick(&alphabet);
        }
        _ => {
            if chars.len() >= 2 {
                let i = rng.usize_below(chars.len() - 1);
                chars.swap(i, i + 1);
            } else {
                chars.push('x');
            }
        }
    }
    chars.into_iter().collect()
}

pub fn gen_input(rng: &mut Rng, case: &Case) -> String {
    let spellings: Vec<&str> = case.claims.iter().map(|(s, _)| *s).chain(case.disabled_spellings.iter().copied()).chain(case.extra_inputs.iter().copied()).chain(case.variants.iter().map(|v| v.ident)).collect();
    let base = |rng: &mut Rng| -> String {
        if spellings.is_empty() {
            pick_str(rng.below(20)).to_string()
        } else {
            rng.pick(&spellings).to_string()
        }
    };
    match rng.weighted(&[6, 6, 12, 14, 14, 8, 10, 16, 2, 6, 6, 8, 5]) {
        0 => String::new(),
        1 => {
            // blank or invisible strings, alone or in front of / behind a spelling
            let inv = [" ", "  ", "\t", "\n", " \u{a0} ", "\r\n", "\u{feff}", "\u{200b}", "\0", "\u{feff}\u{feff}", "\u{2028}"];
            let x = inv[rng.usize_below(inv.len())];
            match rng.below(3) {
                0 => x.to_string(),
                1 => format!("{}{}", x, base(rng)),
                _ => format!("{}{}", base(rng), x),
            }
        }
        2 => {
            let b = base(rng);
            match rng.below(3) {
                0 => format!(" {}", b),
                1 => format!("{} ", b),
                _ => format!("\t{}\n", b),
            }
        }
        3 => {
            let b = base(rng);
            flip_case(rng, &b)
        }
        4 => {
            let b = base(rng);
            one_edit(rng, &b)
        }
        5 => {
            if case.disabled_spellings.is_empty() {
                base(rng)
            } else {
                rng.pick(case.disabled_spellings).to_string()
            }
        }
        6 => base(rng),
        7 => pick_str(gen_pick_index(rng)).to_string(),
        8 => {
            let unit = pick_str(1 + rng.below(12));
            let unit = if unit.is_empty() { "x" } else { unit };
            let mut s = String::new();
            while s.len() < 4096 {
                s.push_str(unit);
            }
            s
        }
        9 => {
            let b = base(rng);
            b.to_uppercase()
        }
        12 => {
            // the spelling with its doubled braces collapsed (what format! would print) or doubled once more
            let b = base(rng);
            if rng.chance(2, 3) {
                b.replace("{{", "{").replace("}}", "}")
            } else {
                b.replace('{', "{{").replace('}', "}}")
            }
        }
        11 => {
            // bit 0x20 flipped on ASCII bytes that are NOT letters ('_' <-> DEL, ' ' <-> NUL, '1' <-> 0x11,
            // '-' <-> CR, '[' <-> '{'): only letters have a "case"
            let b = base(rng);
            let all = rng.chance(1, 2);
            let flipped: String = b
                .chars()
                .map(|c| if c.is_ascii() && !c.is_ascii_alphabetic() && (all || rng.chance(1, 2)) { ((c as u8) ^ 0x20) as char } else { c })
                .collect();
            flipped
        }
        _ => {
            let b = base(rng);
            // Unicode look-alikes: Kelvin sign, long s, dotless i
            b.replace('k', "\u{212A}").replace('K', "\u{212A}").replace('s', "ſ").replace('i', "ı")
        }
    }
}

pub fn gen_leg(rng: &mut Rng, case: &Case) -> Leg {
    let can_display = !case.forwarding_variants().is_empty();
    let can_conv = !case.transparent_variants().is_empty() && (case.has_as_ref || case.has_into_static);
    let can_capture = case.default_variant().is_some() && case.has_from_str;
    let w = [if can_display { 60u32 } else { 0 }, if can_conv { 10 } else { 0 }, if can_capture { 30 } else { 0 }];
    if w.iter().all(|x| *x == 0) {
        return Leg::Conv { variant: 0, inner: (0, 0, -1) };
    }
    let inner = |rng: &mut Rng| -> (u64, u64, i64) {
        let a = gen_payload(rng, 1)[0];
        let b = rng.below(3);
        let c = if rng.chance(25, 100) { rng.below(5) as i64 } else { -1 };
        (a, b, c)
    };
    match rng.weighted(&w) {
        0 => {
            let variant = rng.usize_below(8);
            let inner = inner(rng);
            let call = if rng.chance(8, 100) {
                Call::ToString
            } else {
                let i = if rng.chance(15, 100) { rng.usize_below(4) } else { rng.usize_below(SPECS.len()) };
                {
                    let wmax = if rng.chance(9, 10) { 17 } else { 48 };
                    let pmax = if rng.chance(9, 10) { 9 } else { 30 };
                    Call::Spec(i, rng.usize_below(wmax), rng.usize_below(pmax))
                }
            };
            let faulty = !matches!(call, Call::ToString) && rng.chance(50, 100);
            let approx = pick_str(inner.0).len() + if let Call::Spec(_, w, _) = &call { *w / 2 } else { 0 };
            let plan = Plan::gen(rng, faulty, approx);
            // to_string on an erroring inner value panics inside alloc's ToString; keep that combination rare but present
            let inner = if matches!(call, Call::ToString) && rng.chance(9, 10) { (inner.0, inner.1, -1) } else { inner };
            Leg::Display { variant, inner, call, plan }
        }
        1 => Leg::Conv { variant: rng.usize_below(8), inner: inner(rng) },
        _ => {
            let input = gen_input(rng, case);
            let try_from = rng.chance(1, 2);
            // (drawn last) a warm-up parse of another input, or of the same one, in three runs out of ten
            let warm = if rng.chance(30, 100) {
                let same_len: Vec<&str> = case.claims.iter().map(|(l, _)| *l).filter(|l| l.len() == input.len() && *l != input).collect();
                Some(match rng.below(3) {
                    0 if !same_len.is_empty() => same_len[rng.usize_below(same_len.len())].to_string(),
                    1 => input.clone(),
                    _ => gen_input(rng, case),
                })
            } else {
                None
            };
            Leg::Capture { input, try_from, warm }
        }
    }
}

fn minimise(case: &Case, leg: Leg, sig: &str) -> Leg {
    let same = |c: &Leg| -> bool {
        match exec(case, c, None, false).0 {
            Err(f) => f.sig == sig,
            Ok(()) => false,
        }
    };
    let mut cur = leg;
    for _ in 0..3 {
        let mut cands: Vec<Leg> = Vec::new();
        match &cur {
            Leg::Display { variant, inner, call, plan } => {
                for a in [0u64, 1, 2, 3] {
                    if a < inner.0 {
                        cands.push(Leg::Display { variant: *variant, inner: (a, inner.1, inner.2), call: call.clone(), plan: plan.clone() });
                    }
                }
                for b in 0..inner.1 {
                    cands.push(Leg::Display { variant: *variant, inner: (inner.0, b, inner.2), call: call.clone(), plan: plan.clone() });
                }
                if inner.2 >= 0 {
                    cands.push(Leg::Display { variant: *variant, inner: (inner.0, inner.1, -1), call: call.clone(), plan: plan.clone() });
                    for c in 0..inner.2 {
                        cands.push(Leg::Display { variant: *variant, inner: (inner.0, inner.1, c), call: call.clone(), plan: plan.clone() });
                    }
                }
                if let Call::Spec(i, w, p) = call {
                    for ci in [0usize, 1, 2, 3] {
                        if ci < *i {
                            cands.push(Leg::Display { variant: *variant, inner: *inner, call: Call::Spec(ci, *w, *p), plan: plan.clone() });
                        }
                    }
                    for cw in 0..*w {
                        cands.push(Leg::Display { variant: *variant, inner: *inner, call: Call::Spec(*i, cw, *p), plan: plan.clone() });
                    }
                    for cp in 0..*p {
                        cands.push(Leg::Display { variant: *variant, inner: *inner, call: Call::Spec(*i, *w, cp), plan: plan.clone() });
                    }
                }
                let plan_cands: Vec<Plan> = match plan.clone() {
                    Plan::None => vec![],
                    Plan::RefuseCall(k) => (0..k).map(Plan::RefuseCall).collect(),
                    Plan::RefuseFromCall(k) => (0..=k).map(Plan::RefuseCall).chain((0..k).map(Plan::RefuseFromCall)).collect(),
                    Plan::ByteBudget(b) => (0..b).map(Plan::ByteBudget).collect(),
                    Plan::RefuseEvery(m) => (0..8).map(Plan::RefuseCall).chain((m + 1..8).map(Plan::RefuseEvery)).collect(),
                };
                for pc in plan_cands {
                    cands.push(Leg::Display { variant: *variant, inner: *inner, call: call.clone(), plan: pc });
                }
                for cv in 0..*variant {
                    cands.push(Leg::Display { variant: cv, inner: *inner, call: call.clone(), plan: plan.clone() });
                }
            }
            Leg::Conv { variant, inner } => {
                for a in [0u64, 1, 2, 3] {
                    if a < inner.0 {
                        cands.push(Leg::Conv { variant: *variant, inner: (a, 0, -1) });
                    }
                }
                for cv in 0..*variant {
                    cands.push(Leg::Conv { variant: cv, inner: *inner });
                }
            }
            Leg::Capture { input, try_from, warm } => {
                if warm.is_some() {
                    cands.push(Leg::Capture { input: input.clone(), try_from: *try_from, warm: None });
                }
                if *try_from {
                    cands.push(Leg::Capture { input: input.clone(), try_from: false, warm: warm.clone() });
                }
                // shrink the input: drop characters while the same failure persists
                let chars: Vec<char> = input.chars().collect();
                if chars.len() > 16 {
                    cands.push(Leg::Capture { input: chars[..chars.len() / 2].iter().collect(), try_from: *try_from, warm: warm.clone() });
                    cands.push(Leg::Capture { input: chars[chars.len() / 2..].iter().collect(), try_from: *try_from, warm: warm.clone() });
                }
                for i in 0..chars.len().min(64) {
                    let mut c = chars.clone();
                    c.remove(i);
                    cands.push(Leg::Capture { input: c.into_iter().collect(), try_from: *try_from, warm: warm.clone() });
                }
            }
        }
        let mut changed = false;
        for c in cands {
            if c != cur && same(&c) {
                cur = c;
                changed = true;
                break;
            }
        }
        if !changed {
            break;
        }
    }
    // iterate single-step shrinking to a fixpoint (bounded)
    for _ in 0..200 {
        let before = cur.clone();
        cur = minimise_step(case, cur, sig);
        if cur == before {
            break;
        }
    }
    cur
}

fn minimise_step(case: &Case, leg: Leg, sig: &str) -> Leg {
    let same = |c: &Leg| -> bool {
        match exec(case, c, None, false).0 {
            Err(f) => f.sig == sig,
            Ok(()) => false,
        }
    };
    match &leg {
        Leg::Capture { input, try_from, warm } => {
            let chars: Vec<char> = input.chars().collect();
            for i in 0..chars.len().min(128) {
                let mut c = chars.clone();
                c.remove(i);
                let cand = Leg::Capture { input: c.into_iter().collect(), try_from: *try_from, warm: warm.clone() };
                if same(&cand) {
                    return cand;
                }
            }
            leg
        }
        Leg::Display { variant, inner, call: Call::Spec(i, w, p), plan } => {
            if *w > 0 {
                let cand = Leg::Display { variant: *variant, inner: *inner, call: Call::Spec(*i, w - 1, *p), plan: plan.clone() };
                if same(&cand) {
                    return cand;
                }
            }
            if *p > 0 {
                let cand = Leg::Display { variant: *variant, inner: *inner, call: Call::Spec(*i, *w, p - 1), plan: plan.clone() };
                if same(&cand) {
                    return cand;
                }
            }
            leg
        }
        _ => leg,
    }
}

fn find_case<'a>(cases: &'a [Case], name: &str) -> Option<&'a Case> {
    cases.iter().find(|c| c.name == name)
}

pub fn main(cases: &'static [Case]) -> ! {
    let cli = parse_cli();
    quiet_panics();
    println!("sim_c11 seed={} profile={} corpus={} cases={} specs={} tier={}", cli.seed, PROFILE, cli.corpus_tag, cases.len(), SPECS.len(), cli.tier);
    if let Some(path) = &cli.replay {
        let rf = read_replay(path).unwrap_or_else(|e| {
            eprintln!("HARNESS-ERROR {}", e);
            std::process::exit(2)
        });
        let case = find_case(cases, &rf.case).unwrap_or_else(|| {
            eprintln!("HARNESS-ERROR unknown case {} in corpus {}", rf.case, cli.corpus_tag);
            std::process::exit(2)
        });
        let leg = Leg::parse(&rf.script).unwrap_or_else(|e| {
            eprintln!("HARNESS-ERROR {}", e);
            std::process::exit(2)
        });
        let (r, info) = exec(case, &leg, None, true);
        println!("case {} {}", case.name, case.desc);
        for l in info.log {
            println!("  {}", l);
        }
        match r {
            Err(f) => {
                println!("REPLAY-FAILS oracle={} signature={} expected={} observed={}", f.oracle, f.sig, f.expected, f.observed);
                std::process::exit(1)
            }
            Ok(()) => {
                println!("REPLAY-PASSES");
                std::process::exit(0)
            }
        }
    }
    if cases.is_empty() {
        eprintln!("HARNESS-ERROR empty corpus");
        std::process::exit(2);
    }
    let t0 = now();
    let seed = cli.seed;
    let describe = |run: u64| -> Option<Violation> {
        let mut rng = Rng::for_run(seed, ENGINE_ID, 0, run);
        let case = &cases[rng.usize_below(cases.len())];
        let leg = gen_leg(&mut rng, case);
        Some(Violation { oracle: String::new(), signature: String::new(), run, case: case.name.to_string(), script: leg.lines(), expected: String::new(), observed: String::new() })
    };
    let mut stats = run_parallel(&cli, "C11", NAMES, &describe, |run, st| {
        let mut rng = Rng::for_run(seed, ENGINE_ID, 0, run);
        let ci = rng.usize_below(cases.len());
        let case = &cases[ci];
        let leg = gen_leg(&mut rng, case);
        let keep = run < 3;
        let (r, info) = exec(case, &leg, Some(st), keep);
        st.cover.insert(info.cover);
        st.cover.insert((1u64 << 60) | ((ci as u64) << 8) | match &leg { Leg::Display { .. } => 0, Leg::Conv { .. } => 1, Leg::Capture { .. } => 2 });
        if keep {
            st.samples.push(Json::obj().set("run", Json::u(run)).set("case", Json::s(case.name)).set("enum", Json::s(case.desc)).set("script", Json::strs(leg.lines())).set("log", Json::strs(info.log.clone())));
        }
        if let Err(f) = r {
            st.violation(Violation { oracle: f.oracle.to_string(), signature: f.sig.clone(), run, case: case.name.to_string(), script: leg.lines(), expected: f.expected, observed: f.observed });
        }
        st.end_run(run, info.trace, info.nontrivial, 1);
    });
    let wall = t0.elapsed().as_secs_f64();
    let mut candidates = Vec::new();
    let vs: Vec<Violation> = stats.violations.values().cloned().collect();
    for v in vs {
        let case = find_case(cases, &v.case).unwrap();
        let leg = Leg::parse(&v.script).unwrap();
        let mleg = if cli.no_minimise { leg } else { minimise(case, leg, &v.signature) };
        let (r, _) = exec(case, &mleg, None, false);
        let (exp, obs) = match r {
            Err(f) => (f.expected, f.observed),
            Ok(()) => (v.expected.clone(), v.observed.clone()),
        };
        let mv = Violation { script: mleg.lines(), expected: exp, observed: obs, ..v.clone() };
        let fname = format!("{}/C11-{}-{}-{}-{}.json", cli.replay_dir, PROFILE, cli.seed, mv.run, crate::c05::sanitize(&mv.signature));
        let _ = std::fs::create_dir_all(&cli.replay_dir);
        let mut j = replay_json("C11", &cli, &mv, v.script.len()).set("enum", Json::s(case.desc));
        if let Leg::Capture { input, .. } = &mleg {
            j.put("input", Json::s(input.chars().take(200).collect::<String>()));
        }
        if let Leg::Display { call: Call::Spec(i, _, _), .. } = &mleg {
            j.put("spec_text", Json::s(SPECS[*i % SPECS.len()].text));
        }
        if let Err(e) = std::fs::write(&fname, j.pretty()) {
            eprintln!("HARNESS-ERROR cannot write {}: {}", fname, e);
            std::process::exit(2);
        }
        println!("CANDIDATE property=C11 signature={} oracle={} replay={}", mv.signature, mv.oracle, fname);
        candidates.push(Json::obj().set("signature", Json::s(mv.signature.clone())).set("oracle", Json::s(mv.oracle.clone())).set("replay", Json::s(fname)).set("case", Json::s(mv.case.clone())).set("script", Json::strs(mv.script.iter().cloned())));
    }
    let extra = Json::obj().set("cases", Json::u(cases.len() as u64)).set("format_specs", Json::u(SPECS.len() as u64)).set("distinct_spec_plan_outcome_and_case_leg_tuples", Json::u(stats.cover.len() as u64));
    let total_v = stats.violation_total;
    write_partial(&cli, "C11", "sim_c11", &mut stats, wall, extra, candidates);
    println!("sim_c11 done runs={} violations={} wall={:.2}s", stats.runs, total_v, wall);
    std::process::exit(if total_v > 0 { 1 } else { 0 })
}

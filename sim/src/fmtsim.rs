//! The formatting seam shared by C11 and C17: a fault-injecting `fmt::Write` sink, fault plans,
//! deterministic value tables for payloads.
use crate::rng::{Rng, SplitMix64};
use core::fmt;

#[derive(Clone, Debug, PartialEq, Eq)]
pub enum Plan {
    /// never refuses
    None,
    /// refuses the k-th write call (0-based) once, accepts everything else
    RefuseCall(u32),
    /// refuses the k-th and every later call
    RefuseFromCall(u32),
    /// the write that would cross `b` accepted bytes is refused whole, as is every later one
    ByteBudget(u32),
    /// refuses every m-th call (calls m-1, 2m-1, ...)
    RefuseEvery(u32),
}

impl Plan {
    pub fn line(&self) -> String {
        match self {
            Plan::None => "plan none 0".into(),
            Plan::RefuseCall(k) => format!("plan refuse_call {}", k),
            Plan::RefuseFromCall(k) => format!("plan refuse_from_call {}", k),
            Plan::ByteBudget(b) => format!("plan byte_budget {}", b),
            Plan::RefuseEvery(m) => format!("plan refuse_every {}", m),
        }
    }
    pub fn parse(kind: &str, arg: u32) -> Result<Plan, String> {
        Ok(match kind {
            "none" => Plan::None,
            "refuse_call" => Plan::RefuseCall(arg),
            "refuse_from_call" => Plan::RefuseFromCall(arg),
            "byte_budget" => Plan::ByteBudget(arg),
            "refuse_every" => Plan::RefuseEvery(arg.max(1)),
            o => return Err(format!("unknown plan {:?}", o)),
        })
    }
    pub fn class(&self) -> u64 {
        match self {
            Plan::None => 0,
            Plan::RefuseCall(_) => 1,
            Plan::RefuseFromCall(_) => 2,
            Plan::ByteBudget(_) => 3,
            Plan::RefuseEvery(_) => 4,
        }
    }
    pub fn is_none(&self) -> bool {
        matches!(self, Plan::None)
    }
    pub fn gen(rng: &mut Rng, faulty: bool, approx_len: usize) -> Plan {
        if !faulty {
            return Plan::None;
        }
        let l = approx_len as u64;
        match rng.weighted(&[30, 20, 35, 15]) {
            0 => Plan::RefuseCall(rng.below(l.min(24) + 3) as u32),
            1 => Plan::RefuseFromCall(rng.below(l.min(24) + 3) as u32),
            2 => {
                // bias towards the interesting boundaries: 0, len-1, len, len+1
                match rng.weighted(&[10, 15, 25, 10, 40]) {
                    0 => Plan::ByteBudget(0),
                    1 => Plan::ByteBudget(l.saturating_sub(1) as u32),
                    2 => Plan::ByteBudget(l as u32),
                    3 => Plan::ByteBudget(l as u32 + 1),
                    _ => Plan::ByteBudget(rng.below(l + 20) as u32),
                }
            }
            _ => Plan::RefuseEvery(rng.range(1, 6) as u32),
        }
    }
}

/// The simulated `fmt::Write` the generated code writes into. `fmt::Write` has exactly one
/// failure mode: refusing a whole chunk.
pub struct SimSink {
    pub plan: Plan,
    pub calls: u32,
    pub accepted: String,
    pub refused: u32,
    /// a chunk was accepted after an earlier refusal (the writer kept going after an error)
    pub accepted_after_refusal: bool,
    pub chunk_lens: Vec<u32>,
    budget_tripped: bool,
}

impl SimSink {
    pub fn new(plan: Plan) -> SimSink {
        SimSink { plan, calls: 0, accepted: String::new(), refused: 0, accepted_after_refusal: false, chunk_lens: Vec::new(), budget_tripped: false }
    }
}

impl fmt::Write for SimSink {
    fn write_str(&mut self, s: &str) -> fmt::Result {
        let k = self.calls;
        self.calls += 1;
        let refuse = match self.plan {
            Plan::None => false,
            Plan::RefuseCall(c) => k == c,
            Plan::RefuseFromCall(c) => k >= c,
            Plan::ByteBudget(b) => {
                if self.budget_tripped || self.accepted.len() + s.len() > b as usize {
                    self.budget_tripped = true;
                    true
                } else {
                    false
                }
            }
            Plan::RefuseEvery(m) => (k + 1) % m.max(1) == 0,
        };
        if refuse {
            self.refused += 1;
            Err(fmt::Error)
        } else {
            if self.refused > 0 {
                self.accepted_after_refusal = true;
            }
            self.accepted.push_str(s);
            self.chunk_lens.push(s.len() as u32);
            Ok(())
        }
    }
}

/// Outcome of formatting through a sink, in comparable form.
#[derive(Clone, Debug, PartialEq, Eq)]
pub struct Outcome {
    pub ok: bool,
    pub accepted: String,
    pub refused: u32,
    pub accepted_after_refusal: bool,
    pub calls: u32,
}

pub fn outcome(r: fmt::Result, s: SimSink) -> Outcome {
    Outcome { ok: r.is_ok(), accepted: s.accepted, refused: s.refused, accepted_after_refusal: s.accepted_after_refusal, calls: s.calls }
}

/// The oracle of DESIGN 2.4 for a system-under-test outcome `sut` obtained under some fault plan,
/// against the fault-free reference output `reference`.
/// Returns Err((oracle id, expected, observed)).
pub fn judge_against_reference(sut: &Outcome, reference: &str) -> Result<(), (&'static str, String, String)> {
    if sut.refused == 0 {
        if !sut.ok {
            return Err(("spurious_error", "Ok (the sink accepted every write)".into(), "Err".into()));
        }
        if sut.accepted != reference {
            return Err(("output", format!("{:?}", reference), format!("{:?}", sut.accepted)));
        }
    } else {
        if sut.ok {
            return Err(("error_swallowed", "Err (the sink refused a write)".into(), format!("Ok, sink holds {:?}", sut.accepted)));
        }
        if sut.accepted_after_refusal {
            return Err(("wrote_after_refusal", "no write after the sink refused one".into(), format!("sink accepted more data after a refusal: {:?}", sut.accepted)));
        }
        if !reference.starts_with(sut.accepted.as_str()) {
            return Err(("partial_output_not_prefix", format!("a prefix of {:?}", reference), format!("{:?}", sut.accepted)));
        }
    }
    Ok(())
}

// ------------------------------------------------------------------------------------------
// Deterministic payload tables. `pick(i)`: small i index a table of interesting values, larger i
// derive a value from i by hashing, so a replay script only needs the integer.

pub fn derive(i: u64) -> u64 {
    SplitMix64(i).next()
}

pub trait Pick: Sized {
    fn pick(i: u64) -> Self;
}

macro_rules! pick_table {
    ($t:ty, [$($v:expr),* $(,)?], |$i:ident| $fallback:expr) => {
        impl Pick for $t {
            fn pick(i: u64) -> $t {
                let table: &[$t] = &[$($v),*];
                if (i as usize) < table.len() {
                    table[i as usize].clone()
                } else {
                    let $i = derive(i);
                    $fallback
                }
            }
        }
    };
}

// Convention: index 3 holds the value with the LONGEST rendering of its type, index 4 the runner-up, so
// that "every field at index 3" is the all-extremes combination (see `gen_payload`).
pick_table!(u8, [0, 1, 9, 255, 100, 10, 99], |h| h as u8);
pick_table!(u16, [0, 1, 9, 65535, 10000, 10, 999], |h| h as u16);
pick_table!(u64, [0, 1, 10, u64::MAX, 1 << 63, 12345], |h| h);
pick_table!(usize, [0, 1, 10, usize::MAX, usize::MAX / 2, 12345], |h| h as usize);
pick_table!(i8, [0, 1, -1, i8::MIN, i8::MAX, 10, -10], |h| h as i8);
pick_table!(i32, [0, 1, -1, i32::MIN, i32::MAX, 10, -10, 1000], |h| h as i32);
pick_table!(i64, [0, 1, -1, i64::MIN, i64::MAX, 42, -1000], |h| h as i64);
pick_table!(i128, [0, 1, -1, i128::MIN, i128::MAX], |h| (h as i128) << 40);
pick_table!(bool, [false, true, true, false, true], |h| h & 1 == 1);
pick_table!(char, ['a', 'Z', '0', '\u{1F600}', '\u{10FFFF}', 'é', 'ß', ' ', '{', '}', '"', '\\', '\n'], |h| char::from_u32((h % 0xD000) as u32).unwrap_or('x'));
pick_table!(f64, [0.0, -0.0, 1.0, f64::MIN, f64::MAX, 0.1, 1e300, 1e-300, f64::NAN, f64::INFINITY, f64::NEG_INFINITY, 123456.789, 2.5, -1.5], |h| (h as i64 as f64) / 1024.0);
pick_table!(f32, [0.0, -0.0, 1.0, f32::MIN, f32::MAX, 0.1, f32::NAN, f32::INFINITY, 2.5, -1.5], |h| (h as i32 as f32) / 64.0);

const STRS: &[&str] = &[
    "", "a", "é",
    // index 3: the longest one (several hundred bytes, multi-byte characters included)
    "0123456789 the quick brown fox jumps over the lazy dog; zażółć gęślą jaźń; 日本語のテキスト; 0123456789 the quick brown fox jumps over the lazy dog; ZAŻÓŁĆ GĘŚLĄ JAŹŃ; \u{1F600}\u{1F601}\u{1F602} 0123456789 the quick brown fox jumps over the lazy dog 0123456789 the quick brown fox jumps over the lazy dog",
    // index 4: longer than 64 and 96 bytes
    "a-somewhat-longer-string-of-more-than-one-hundred-bytes-so-that-small-fixed-size-buffers-overflow-0123456789",
    "héllo wörld", "{}", "a b", " lead", "trail ", "UPPER", "MiXeD", "日本語", "{0}", "}}{{", "x\ny", "ß", "İ",
    "a-somewhat-longer-string-of-forty-two-bytes", "\u{1F600}\u{1F601}", "e\u{301}", "\t",
    "sixty-five-bytes-long-string-sixty-five-bytes-long-string-123456",
];

pub fn pick_str(i: u64) -> &'static str {
    if (i as usize) < STRS.len() {
        STRS[i as usize]
    } else {
        // derived strings: built once, leaked (bounded: at most 64 distinct values)
        use std::sync::OnceLock;
        static DERIVED: OnceLock<Vec<&'static str>> = OnceLock::new();
        let d = DERIVED.get_or_init(|| {
            let alphabet: Vec<char> = "abcXYZ019 _-éßĸK\u{212A}ſı{}:%".chars().collect();
            (0..64u64)
                .map(|k| {
                    let mut sm = SplitMix64(k ^ 0xABCD);
                    let len = (sm.next() % 12) as usize;
                    let s: String = (0..len).map(|_| alphabet[(sm.next() % alphabet.len() as u64) as usize]).collect();
                    &*Box::leak(s.into_boxed_str())
                })
                .collect()
        });
        d[(derive(i) % 64) as usize]
    }
}

impl Pick for String {
    fn pick(i: u64) -> String {
        pick_str(i).to_string()
    }
}
impl Pick for &'static str {
    fn pick(i: u64) -> &'static str {
        pick_str(i)
    }
}
impl Pick for std::borrow::Cow<'static, str> {
    fn pick(i: u64) -> Self {
        if i % 2 == 0 {
            std::borrow::Cow::Borrowed(pick_str(i))
        } else {
            std::borrow::Cow::Owned(pick_str(i).to_string())
        }
    }
}
impl Pick for Box<str> {
    fn pick(i: u64) -> Box<str> {
        pick_str(i).into()
    }
}
impl<T: Pick> Pick for Option<T> {
    fn pick(i: u64) -> Option<T> {
        if i % 4 == 3 {
            None
        } else {
            Some(T::pick(i / 4))
        }
    }
}
impl<T: Pick> Pick for Vec<T> {
    fn pick(i: u64) -> Vec<T> {
        (0..(i % 3)).map(|k| T::pick(i / 3 + k)).collect()
    }
}
impl Pick for () {
    fn pick(_: u64) {}
}

/// Index generator: mostly table values, sometimes derived ones.
pub fn gen_pick_index(rng: &mut Rng) -> u64 {
    if rng.chance(75, 100) {
        rng.below(24)
    } else {
        24 + rng.below(1 << 32)
    }
}

/// Payload indices for all fields of one value. Besides independent draws, a share of the runs puts
/// EVERY field at the same extreme index (3 = longest rendering of each type, 4 = runner-up), because
/// fixed-size buffers and length estimates only fail when all parts are maximal at once.
pub fn gen_payload(rng: &mut Rng, nfields: usize) -> Vec<u64> {
    match rng.weighted(&[84, 9, 4, 3]) {
        0 => (0..nfields).map(|_| gen_pick_index(rng)).collect(),
        1 => vec![3; nfields],
        2 => vec![4; nfields],
        _ => (0..nfields).map(|_| 3 + rng.below(2)).collect(),
    }
}

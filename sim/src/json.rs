//! Minimal JSON value + serializer (write-only; replay scripts are line based, see `script`).
use std::fmt::Write;

#[derive(Clone, Debug, PartialEq)]
pub enum Json {
    Null,
    Bool(bool),
    Int(i128),
    Float(f64),
    Str(String),
    Arr(Vec<Json>),
    Obj(Vec<(String, Json)>),
}

impl Json {
    pub fn obj() -> Json {
        Json::Obj(Vec::new())
    }
    pub fn s<T: Into<String>>(t: T) -> Json {
        Json::Str(t.into())
    }
    pub fn u(v: u64) -> Json {
        Json::Int(v as i128)
    }
    pub fn set<T: Into<String>>(mut self, k: T, v: Json) -> Json {
        if let Json::Obj(ref mut o) = self {
            o.push((k.into(), v));
        }
        self
    }
    pub fn put<T: Into<String>>(&mut self, k: T, v: Json) {
        if let Json::Obj(ref mut o) = self {
            o.push((k.into(), v));
        }
    }
    pub fn strs<I: IntoIterator<Item = String>>(it: I) -> Json {
        Json::Arr(it.into_iter().map(Json::Str).collect())
    }

    pub fn write(&self, out: &mut String, indent: usize, pretty: bool) {
        match self {
            Json::Null => out.push_str("null"),
            Json::Bool(b) => out.push_str(if *b { "true" } else { "false" }),
            Json::Int(i) => {
                let _ = write!(out, "{}", i);
            }
            Json::Float(f) => {
                if f.is_finite() {
                    let _ = write!(out, "{:.3}", f);
                } else {
                    out.push_str("null");
                }
            }
            Json::Str(s) => write_str(out, s),
            Json::Arr(a) => {
                if a.is_empty() {
                    out.push_str("[]");
                    return;
                }
                out.push('[');
                for (i, v) in a.iter().enumerate() {
                    if i > 0 {
                        out.push(',');
                    }
                    nl(out, indent + 1, pretty);
                    v.write(out, indent + 1, pretty);
                }
                nl(out, indent, pretty);
                out.push(']');
            }
            Json::Obj(o) => {
                if o.is_empty() {
                    out.push_str("{}");
                    return;
                }
                out.push('{');
                for (i, (k, v)) in o.iter().enumerate() {
                    if i > 0 {
                        out.push(',');
                    }
                    nl(out, indent + 1, pretty);
                    write_str(out, k);
                    out.push(':');
                    if pretty {
                        out.push(' ');
                    }
                    v.write(out, indent + 1, pretty);
                }
                nl(out, indent, pretty);
                out.push('}');
            }
        }
    }

    pub fn pretty(&self) -> String {
        let mut s = String::new();
        self.write(&mut s, 0, true);
        s.push('\n');
        s
    }
    pub fn compact(&self) -> String {
        let mut s = String::new();
        self.write(&mut s, 0, false);
        s
    }
}

fn nl(out: &mut String, indent: usize, pretty: bool) {
    if pretty {
        out.push('\n');
        for _ in 0..indent {
            out.push(' ');
        }
    }
}

fn write_str(out: &mut String, s: &str) {
    out.push('"');
    for c in s.chars() {
        match c {
            '"' => out.push_str("\\\""),
            '\\' => out.push_str("\\\\"),
            '\n' => out.push_str("\\n"),
            '\r' => out.push_str("\\r"),
            '\t' => out.push_str("\\t"),
            c if (c as u32) < 0x20 => {
                let _ = write!(out, "\\u{:04x}", c as u32);
            }
            c => out.push(c),
        }
    }
    out.push('"');
}

#[cfg(test)]
mod tests {
    use super::*;
    #[test]
    fn roundtrip_shape() {
        let j = Json::obj()
            .set("a", Json::u(1))
            .set("b", Json::s("x\"y\n"))
            .set("c", Json::Arr(vec![Json::Bool(true), Json::Null]));
        assert_eq!(j.compact(), r#"{"a":1,"b":"x\"y\n","c":[true,null]}"#);
    }
}

// ---------------------------------------------------------------------------------------------
// Parser (used only to read replay files back).

pub fn parse(text: &str) -> Result<Json, String> {
    let b: Vec<char> = text.chars().collect();
    let mut p = P { b: &b, i: 0 };
    p.ws();
    let v = p.value()?;
    p.ws();
    if p.i != b.len() {
        return Err(format!("trailing data at {}", p.i));
    }
    Ok(v)
}

struct P<'a> {
    b: &'a [char],
    i: usize,
}

impl<'a> P<'a> {
    fn ws(&mut self) {
        while self.i < self.b.len() && self.b[self.i].is_whitespace() {
            self.i += 1;
        }
    }
    fn eat(&mut self, c: char) -> Result<(), String> {
        if self.i < self.b.len() && self.b[self.i] == c {
            self.i += 1;
            Ok(())
        } else {
            Err(format!("expected {:?} at {}", c, self.i))
        }
    }
    fn lit(&mut self, s: &str, v: Json) -> Result<Json, String> {
        for c in s.chars() {
            self.eat(c)?;
        }
        Ok(v)
    }
    fn value(&mut self) -> Result<Json, String> {
        self.ws();
        if self.i >= self.b.len() {
            return Err("eof".into());
        }
        match self.b[self.i] {
            'n' => self.lit("null", Json::Null),
            't' => self.lit("true", Json::Bool(true)),
            'f' => self.lit("false", Json::Bool(false)),
            '"' => Ok(Json::Str(self.string()?)),
            '[' => {
                self.i += 1;
                let mut a = Vec::new();
                self.ws();
                if self.i < self.b.len() && self.b[self.i] == ']' {
                    self.i += 1;
                    return Ok(Json::Arr(a));
                }
                loop {
                    a.push(self.value()?);
                    self.ws();
                    if self.i < self.b.len() && self.b[self.i] == ',' {
                        self.i += 1;
                        continue;
                    }
                    self.eat(']')?;
                    return Ok(Json::Arr(a));
                }
            }
            '{' => {
                self.i += 1;
                let mut o = Vec::new();
                self.ws();
                if self.i < self.b.len() && self.b[self.i] == '}' {
                    self.i += 1;
                    return Ok(Json::Obj(o));
                }
                loop {
                    self.ws();
                    let k = self.string()?;
                    self.ws();
                    self.eat(':')?;
                    let v = self.value()?;
                    o.push((k, v));
                    self.ws();
                    if self.i < self.b.len() && self.b[self.i] == ',' {
                        self.i += 1;
                        continue;
                    }
                    self.eat('}')?;
                    return Ok(Json::Obj(o));
                }
            }
            _ => {
                let st = self.i;
                while self.i < self.b.len()
                    && (self.b[self.i].is_ascii_digit() || "+-.eE".contains(self.b[self.i]))
                {
                    self.i += 1;
                }
                let s: String = self.b[st..self.i].iter().collect();
                if let Ok(i) = s.parse::<i128>() {
                    Ok(Json::Int(i))
                } else {
                    s.parse::<f64>().map(Json::Float).map_err(|e| format!("{} at {}", e, st))
                }
            }
        }
    }
    fn string(&mut self) -> Result<String, String> {
        self.eat('"')?;
        let mut s = String::new();
        loop {
            if self.i >= self.b.len() {
                return Err("eof in string".into());
            }
            let c = self.b[self.i];
            self.i += 1;
            match c {
                '"' => return Ok(s),
                '\\' => {
                    let e = self.b[self.i];
                    self.i += 1;
                    match e {
                        'n' => s.push('\n'),
                        'r' => s.push('\r'),
                        't' => s.push('\t'),
                        'b' => s.push('\u{8}'),
                        'f' => s.push('\u{c}'),
                        'u' => {
                            let h: String = self.b[self.i..self.i + 4].iter().collect();
                            self.i += 4;
                            let cp = u32::from_str_radix(&h, 16).map_err(|e| e.to_string())?;
                            s.push(char::from_u32(cp).unwrap_or('\u{fffd}'));
                        }
                        other => s.push(other),
                    }
                }
                c => s.push(c),
            }
        }
    }
}

impl Json {
    pub fn get(&self, k: &str) -> Option<&Json> {
        match self {
            Json::Obj(o) => o.iter().find(|(kk, _)| kk == k).map(|(_, v)| v),
            _ => None,
        }
    }
    pub fn as_str(&self) -> Option<&str> {
        match self {
            Json::Str(s) => Some(s),
            _ => None,
        }
    }
    pub fn as_arr(&self) -> Option<&[Json]> {
        match self {
            Json::Arr(a) => Some(a),
            _ => None,
        }
    }
    pub fn as_u64(&self) -> Option<u64> {
        match self {
            Json::Int(i) => Some(*i as u64),
            _ => None,
        }
    }
}

#[cfg(test)]
mod ptests {
    use super::*;
    #[test]
    fn parse_back() {
        let j = Json::obj()
            .set("a", Json::u(18446744073709551615))
            .set("b", Json::s("x\"y\né\u{1}"))
            .set("c", Json::Arr(vec![Json::Bool(true), Json::Null, Json::Arr(vec![]), Json::obj()]));
        assert_eq!(parse(&j.pretty()).unwrap(), j);
        assert_eq!(parse(&j.compact()).unwrap(), j);
    }
}

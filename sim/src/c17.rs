//! C17 — Display renders fixed names like a `str` and placeholders like `format!`.
//!
//! World: simulated caller (format spec table with runtime width/precision, or `to_string()`),
//! the real generated `Display::fmt`, a fault-injecting `fmt::Write` sink.
//! Reference: rustc's own `write!(sink, SPEC, NAME)` for fixed names, and the generator-written
//! `write!(sink, "<same literal>", fields..)` for placeholder names.
use crate::fmtsim::*;
use crate::harness::*;
use crate::json::Json;
use crate::rng::Rng;
use crate::specs::SPECS;
use core::fmt;

pub const ENGINE_ID: u64 = 17;

/// A payload whose own `Display` can fail: `err_at` 0 = never, 1 = before any output, 2 = after half of
/// the text, 3 = after all of it. Used only in named-field placeholders (the tuple arm renders through
/// `format!`, which panics on such a value exactly like the `format!` the statement refers to).
#[derive(Clone, Debug, PartialEq)]
pub struct Flaky {
    pub text: &'static str,
    pub err_at: u8,
}
impl Pick for Flaky {
    fn pick(i: u64) -> Flaky {
        // most picks are well behaved, so that ordinary runs dominate
        let err_at = if i % 3 == 0 { ((i / 3) % 4) as u8 } else { 0 };
        Flaky { text: pick_str(i / 12), err_at }
    }
}
impl fmt::Display for Flaky {
    fn fmt(&self, f: &mut fmt::Formatter<'_>) -> fmt::Result {
        if self.err_at == 1 {
            return Err(fmt::Error);
        }
        let chars: Vec<char> = self.text.chars().collect();
        let half: String = chars[..chars.len() / 2].iter().collect();
        let rest: String = chars[chars.len() / 2..].iter().collect();
        f.write_str(&half)?;
        if self.err_at == 2 {
            return Err(fmt::Error);
        }
        f.write_str(&rest)?;
        if self.err_at == 3 {
            return Err(fmt::Error);
        }
        Ok(())
    }
}

pub trait Subject {
    fn display(&self) -> &dyn fmt::Display;
    /// reference rendering of an interpolated variant (generator-written `write!`)
    fn ref_fmt(&self, s: &mut dyn fmt::Write) -> fmt::Result;
    fn debug(&self) -> String;
    /// `value.to_string()` written with method-call syntax on the concrete type (an inherent method of
    /// that name would win over the blanket `ToString`)
    fn direct_to_string(&self) -> String;
}

pub struct VariantInfo {
    pub ident: &'static str,
    /// "unit" | "tuple" | "named"
    pub kind: &'static str,
    /// canonical name when it is a fixed string (prefix included)
    pub fixed: Option<&'static str>,
    /// the placeholder literal (prefix included) otherwise
    pub literal: Option<&'static str>,
    pub nfields: usize,
}

pub struct Case {
    pub name: &'static str,
    pub desc: &'static str,
    pub variants: &'static [VariantInfo],
    pub make: fn(usize, &[u64]) -> Box<dyn Subject>,
}

#[derive(Clone, Debug, PartialEq)]
pub enum Call {
    Spec(usize, usize, usize),
    ToString,
}

#[derive(Clone, Debug, PartialEq)]
pub struct Script {
    pub variant: usize,
    pub payload: Vec<u64>,
    pub call: Call,
    pub plan: Plan,
    /// payload of a warm-up call (another value of the same variant, or the same value, formatted and thrown away
    /// before the checked call): whatever an earlier call leaves behind must not reach the next one. Empty = none.
    pub warm: Vec<u64>,
}

impl Script {
    pub fn lines(&self) -> Vec<String> {
        let pl: Vec<String> = self.payload.iter().map(|p| p.to_string()).collect();
        vec![
            format!("variant {}", self.variant),
            format!("payload {}", pl.join(" ")),
            match &self.call {
                Call::Spec(i, w, p) => format!("call spec {} {} {}", i, w, p),
                Call::ToString => "call to_string".to_string(),
            },
            self.plan.line(),
        ]
        .into_iter()
        .chain(if self.warm.is_empty() { None } else { Some(format!("warmup {}", self.warm.iter().map(|p| p.to_string()).collect::<Vec<_>>().join(" "))) })
        .collect()
    }
    pub fn parse(lines: &[String]) -> Result<Script, String> {
        let mut s = Script { variant: 0, payload: vec![], call: Call::Spec(0, 0, 0), plan: Plan::None, warm: vec![] };
        for l in lines {
            let p: Vec<&str> = l.split_whitespace().collect();
            let num = |i: usize| -> Result<u64, String> { p.get(i).ok_or(format!("missing arg in {:?}", l))?.parse::<u64>().map_err(|e| format!("{:?}: {}", l, e)) };
            match p.first().copied() {
                Some("variant") => s.variant = num(1)? as usize,
                Some("payload") => s.payload = p[1..].iter().map(|x| x.parse::<u64>().map_err(|e| e.to_string())).collect::<Result<_, _>>()?,
                Some("call") => {
                    s.call = match p.get(1).copied() {
                        Some("spec") => Call::Spec(num(2)? as usize, num(3)? as usize, num(4)? as usize),
                        Some("to_string") => Call::ToString,
                        o => return Err(format!("bad call {:?}", o)),
                    }
                }
                Some("plan") => s.plan = Plan::parse(p.get(1).copied().unwrap_or("none"), num(2)? as u32)?,
                Some("warmup") => s.warm = p[1..].iter().map(|x| x.parse::<u64>().map_err(|e| e.to_string())).collect::<Result<_, _>>()?,
                o => return Err(format!("bad line {:?}", o)),
            }
        }
        Ok(s)
    }
}

pub const NAMES: &[&str] = &[
    "runs_fixed_unit", "runs_fixed_tuple", "runs_fixed_named", "runs_interp_tuple", "runs_interp_named", "runs_to_string",
    "runs_fault_free", "runs_with_sink_plan", "fault_sink_refusals_fired", "fault_refuse_call_fired", "fault_refuse_from_fired",
    "fault_byte_budget_fired", "fault_refuse_every_fired",
    "probe_precision_cuts_multibyte", "probe_width_smaller_than_name", "probe_width_larger_than_name", "probe_fill_multibyte",
    "probe_refused_with_empty_output", "probe_refused_mid_output", "probe_refused_between_interpolation_pieces",
    "probe_budget_exactly_output_len", "probe_same_chunking_as_reference", "probe_different_chunking_than_reference",
    "probe_name_has_escaped_braces", "probe_name_multibyte", "probe_empty_name", "probe_plan_never_fired",
    "fault_field_display_err_fired", "probe_interpolated_variant_under_nontrivial_caller_spec",
    "probe_width_or_precision_taken_from_another_field", "probe_identifier_shared_with_a_styled_enum",
    "probe_warm_up_call_with_another_value_first", "probe_warm_up_call_with_the_same_value_first", "probe_nested_display_of_the_same_enum",
];
const R_FIXED_UNIT: usize = 0;
const R_INTERP_TUPLE: usize = 3;
const R_INTERP_NAMED: usize = 4;
const R_TO_STRING: usize = 5;
const R_FAULT_FREE: usize = 6;
const R_WITH_PLAN: usize = 7;
const F_REFUSALS: usize = 8;
const F_KIND0: usize = 9; // + plan.class()-1
const P_PREC_MB: usize = 13;
const P_W_SMALL: usize = 14;
const P_W_LARGE: usize = 15;
const P_FILL_MB: usize = 16;
const P_REF_EMPTY: usize = 17;
const P_REF_MID: usize = 18;
const P_REF_INTERP: usize = 19;
const P_BUDGET_EXACT: usize = 20;
const P_SAME_CHUNK: usize = 21;
const P_DIFF_CHUNK: usize = 22;
const P_ESC: usize = 23;
const P_MB: usize = 24;
const P_EMPTY: usize = 25;
const P_PLAN_NOFIRE: usize = 26;
const F_FIELD_ERR: usize = 27;
const P_UNDEFINED_SPEC: usize = 28;
const P_WIDTH_ARG: usize = 29;
const P_SHARED_IDENT: usize = 30;
const P_WARM_OTHER: usize = 31;
const P_WARM_SAME: usize = 32;
const P_NESTED: usize = 33;

pub struct Failure {
    pub oracle: &'static str,
    pub sig: String,
    pub expected: String,
    pub observed: String,
}

pub struct RunInfo {
    pub trace: TraceHash,
    pub nontrivial: bool,
    pub log: Vec<String>,
    pub cover: u64,
}

/// Executes one script against `case`. No PRNG involved.
pub fn exec(case: &Case, sc: &Script, mut stats: Option<&mut Stats>, keep_log: bool) -> (Result<(), Failure>, RunInfo) {
    let mut info = RunInfo { trace: TraceHash::new(), nontrivial: false, log: Vec::new(), cover: 0 };
    info.trace.s(case.name);
    let vi = sc.variant % case.variants.len();
    let v = &case.variants[vi];
    let mut payload = sc.payload.clone();
    payload.resize(v.nfields, 0);
    info.trace.u(vi as u64);
    for p in &payload {
        info.trace.u(*p);
    }
    if !sc.warm.is_empty() {
        let mut wp = sc.warm.clone();
        wp.resize(v.nfields, 0);
        for p in &wp {
            info.trace.u(*p);
        }
        // the warm-up call: its result is not judged (the same value is judged by the runs that check it), a panic
        // or an Err in it is not this run's business
        let _ = catch(|| {
            let w = (case.make)(vi, &wp);
            let mut scratch = String::new();
            let _ = fmt::Write::write_fmt(&mut scratch, format_args!("{}", w.display()));
            let _ = fmt::Write::write_fmt(&mut scratch, format_args!("{:>7.3}", w.display()));
        });
    }
    let arm = if v.fixed.is_some() { "fixed" } else { "interp" };
    let fclass = if sc.plan.is_none() { "nofault" } else { "fault" };
    let sig = |oracle: &str| format!("{}:{}:{}:{}", oracle, v.kind, arm, fclass);
    let mk_fail = |oracle: &'static str, e: String, o: String| Failure { oracle, sig: sig(oracle), expected: e, observed: o };

    let subject = match catch(|| (case.make)(vi, &payload)) {
        Ok(s) => s,
        Err(m) => return (Err(mk_fail("harness_make", "value".into(), m)), info),
    };
    if keep_log {
        info.log.push(format!("value = {}", subject.debug()));
    }
    // A non-trivial caller spec on an interpolated variant is outside the statement (what the OUTPUT
    // should be is undefined there), but the error contract of fmt is not: whatever the spec, a refused
    // write must surface as Err and nothing may be written after it. So such calls are executed with
    // `spec_defined = false`: no output oracle, only the error-propagation invariants.
    let call = sc.call.clone();
    let spec_defined = match (&call, v.fixed.is_some()) {
        // (a caller spec WITHOUT width and precision - sign, `#`, `0`, fill and alignment only - leaves a string and an
        // `Arguments` alike as they are: there the rendering of the literal is the one defined output)
        (Call::Spec(i, _, _), false) => {
            let sp = &SPECS[*i % SPECS.len()];
            !sp.uses_w && !sp.uses_p
        }
        _ => true,
    };
    // ---- reference (fault-free sink; it can still end in Err when a payload's own Display fails) ----
    let (reference, ref_chunks, ref_ok): (String, Vec<u32>, bool) = {
        let mut rs = SimSink::new(Plan::None);
        let r = match catch(|| match (&call, v.fixed) {
            (Call::Spec(i, w, p), Some(name)) => (SPECS[*i % SPECS.len()].f)(&name, &mut rs, *w, *p),
            (Call::ToString, Some(name)) => fmt::Write::write_str(&mut rs, name),
            (_, None) => subject.ref_fmt(&mut rs),
        }) {
            Ok(r) => r,
            Err(m) => return (Err(mk_fail("harness_reference", "reference formatting does not panic".into(), m)), info),
        };
        if r.is_err() && v.fixed.is_some() {
            return (Err(mk_fail("harness_reference", "formatting a &str into an accepting sink succeeds".into(), "Err".into())), info);
        }
        (rs.accepted, rs.chunk_lens, r.is_ok())
    };
    info.nontrivial = !reference.is_empty();
    info.trace.s(&reference);
    info.trace.u(ref_ok as u64);
    if let Some(st) = stats.as_deref_mut() {
        if !ref_ok {
            st.hit(F_FIELD_ERR);
        }
        let k = match (v.kind, v.fixed.is_some()) {
            ("unit", _) => R_FIXED_UNIT,
            ("tuple", true) => R_FIXED_UNIT + 1,
            ("named", true) => R_FIXED_UNIT + 2,
            ("tuple", false) => R_INTERP_TUPLE,
            _ => R_INTERP_NAMED,
        };
        st.hit(k);
        if v.literal.map_or(false, |l| l.contains("$}") || l.contains("$.")) {
            st.hit(P_WIDTH_ARG);
        }
        if !sc.warm.is_empty() {
            st.hit(if sc.warm == sc.payload { P_WARM_SAME } else { P_WARM_OTHER });
        }
        if matches!(v.ident, "Node" | "Deep" | "Twice") && case.desc.contains("Leaf[") {
            st.hit(P_NESTED);
        }
        if matches!(v.ident, "raw__mode" | "_reserved" | "trailing_" | "snake_case_name" | "Http2" | "Sha256Sum" | "Ipv6Only") && case.desc.contains("serialize_all=None") {
            st.hit(P_SHARED_IDENT);
        }
        if let Some(name) = v.fixed {
            if name.contains("{{") || name.contains("}}") {
                st.hit(P_ESC);
            }
            if !name.is_ascii() {
                st.hit(P_MB);
            }
            if name.is_empty() {
                st.hit(P_EMPTY);
            }
            if let Call::Spec(i, w, p) = &call {
                let sp = &SPECS[*i % SPECS.len()];
                let chars = name.chars().count();
                if sp.uses_p && *p < chars && !name.is_ascii() {
                    st.hit(P_PREC_MB);
                }
                if sp.uses_w && *w < chars {
                    st.hit(P_W_SMALL);
                }
                if sp.uses_w && *w > chars {
                    st.hit(P_W_LARGE);
                }
                if sp.text.contains('é') {
                    st.hit(P_FILL_MB);
                }
            }
        }
    }
    // ---- system under test ----
    let outcome_sut: Outcome;
    let sut_chunks: Vec<u32>;
    match &call {
        Call::ToString => {
            if let Some(st) = stats.as_deref_mut() {
                st.hit(R_TO_STRING);
                st.hit(R_FAULT_FREE);
            }
            let got = match catch(|| {
                let a = subject.display().to_string();
                let b = subject.direct_to_string();
                if a == b {
                    a
                } else {
                    format!("<value.to_string() = {:?} but ToString through &dyn Display = {:?}>", b, a)
                }
            }) {
                Ok(g) => {
                    if !ref_ok {
                        return (Err(mk_fail("error_swallowed", "to_string() panics (a field's Display returned Err)".into(), format!("{:?}", g))), info);
                    }
                    g
                }
                Err(m) => {
                    if !ref_ok {
                        // ToString panics when Display fails: same as format! on the same fields
                        return (Ok(()), info);
                    }
                    return (Err(mk_fail("panic", "no panic".into(), format!("panic: {}", m))), info);
                }
            };
            if keep_log {
                info.log.push(format!("to_string() -> {:?}   reference {:?}", got, reference));
            }
            info.trace.s(&got);
            info.cover = cover_key(v, 0, 0, 0);
            if got != reference {
                return (Err(mk_fail("output", format!("{:?}", reference), format!("{:?}", got))), info);
            }
            return (Ok(()), info);
        }
        Call::Spec(i, w, p) => {
            let sp = &SPECS[*i % SPECS.len()];
            let mut sink = SimSink::new(sc.plan.clone());
            let r = match catch(|| (sp.f)(subject.display(), &mut sink, *w, *p)) {
                Ok(r) => r,
                Err(m) => return (Err(mk_fail("panic", "no panic".into(), format!("panic: {}", m))), info),
            };
            sut_chunks = sink.chunk_lens.clone();
            outcome_sut = outcome(r, sink);
            if keep_log {
                info.log.push(format!("format spec {:?} w={} p={} under {} -> {} accepted {:?} refused {} calls {}   reference {:?}", sp.text, w, p, sc.plan.line(), if outcome_sut.ok { "Ok" } else { "Err" }, outcome_sut.accepted, outcome_sut.refused, outcome_sut.calls, reference));
            }
            info.cover = cover_key(v, spec_class(sp.uses_w, sp.uses_p, *i), sc.plan.class(), if outcome_sut.ok { 1 } else { 2 });
        }
    }
    info.trace.u(outcome_sut.ok as u64);
    info.trace.s(&outcome_sut.accepted);
    info.trace.u(outcome_sut.refused as u64);
    if let Some(st) = stats.as_deref_mut() {
        if sc.plan.is_none() {
            st.hit(R_FAULT_FREE);
        } else {
            st.hit(R_WITH_PLAN);
            if outcome_sut.refused > 0 {
                st.add(F_REFUSALS, outcome_sut.refused as u64);
                st.hit(F_KIND0 + sc.plan.class() as usize - 1);
                if outcome_sut.accepted.is_empty() {
                    st.hit(P_REF_EMPTY);
                } else {
                    st.hit(P_REF_MID);
                    if v.fixed.is_none() {
                        st.hit(P_REF_INTERP);
                    }
                }
            } else {
                st.hit(P_PLAN_NOFIRE);
            }
            if let Plan::ByteBudget(b) = sc.plan {
                if b as usize == reference.len() {
                    st.hit(P_BUDGET_EXACT);
                }
            }
        }
        if outcome_sut.refused == 0 {
            if sut_chunks == ref_chunks {
                st.hit(P_SAME_CHUNK);
            } else {
                st.hit(P_DIFF_CHUNK);
            }
        }
    }
    if !spec_defined {
        if let Some(st) = stats.as_deref_mut() {
            st.hit(P_UNDEFINED_SPEC);
        }
        if outcome_sut.refused > 0 {
            if outcome_sut.ok {
                return (Err(mk_fail("error_swallowed", "Err (the sink refused a write)".into(), format!("Ok, sink holds {:?}", outcome_sut.accepted))), info);
            }
            if outcome_sut.accepted_after_refusal {
                return (Err(mk_fail("wrote_after_refusal", "no write after the sink refused one".into(), format!("sink accepted more data after a refusal: {:?}", outcome_sut.accepted))), info);
            }
        } else if ref_ok && !outcome_sut.ok {
            return (Err(mk_fail("spurious_error", "Ok (the sink accepted every write and no field failed)".into(), "Err".into())), info);
        }
        return (Ok(()), info);
    }
    if !ref_ok && outcome_sut.refused == 0 {
        // a field's own Display failed: the generated code must return that error after the same output
        if outcome_sut.ok {
            return (Err(mk_fail("error_swallowed", "Err (a field's Display returned Err)".into(), format!("Ok, sink holds {:?}", outcome_sut.accepted))), info);
        }
        if outcome_sut.accepted != reference {
            return (Err(mk_fail("output", format!("{:?} then Err", reference), format!("{:?} then Err", outcome_sut.accepted))), info);
        }
        return (Ok(()), info);
    }
    match judge_against_reference(&outcome_sut, &reference) {
        Ok(()) => (Ok(()), info),
        Err((oracle, e, o)) => (Err(mk_fail(oracle, e, o)), info),
    }
}

fn spec_class(uses_w: bool, uses_p: bool, idx: usize) -> u64 {
    ((uses_w as u64) << 1 | uses_p as u64) | (((idx % SPECS.len()) as u64 / 4) << 2)
}

fn cover_key(v: &VariantInfo, spec_class: u64, plan_class: u64, outcome: u64) -> u64 {
    let arm: u64 = match (v.kind, v.fixed.is_some()) {
        ("unit", _) => 0,
        ("tuple", true) => 1,
        ("named", true) => 2,
        ("tuple", false) => 3,
        _ => 4,
    };
    (arm << 40) | (spec_class << 8) | (plan_class << 4) | outcome
}

pub fn gen_script(rng: &mut Rng, case: &Case) -> Script {
    let vi = rng.usize_below(case.variants.len());
    let v = &case.variants[vi];
    let payload: Vec<u64> = gen_payload(rng, v.nfields);
    let call = if rng.chance(8, 100) {
        Call::ToString
    } else if v.fixed.is_some() {
        let i = if rng.chance(15, 100) { rng.usize_below(4) } else { rng.usize_below(SPECS.len()) };
        let len = v.fixed.unwrap().chars().count();
        let w = match rng.weighted(&[50, 25, 20, 5]) {
            0 => rng.usize_below(17),
            1 => (len + rng.usize_below(3)).saturating_sub(1),
            2 => len + 1 + rng.usize_below(8),
            _ => rng.usize_below(64),
        };
        let p = match rng.weighted(&[50, 35, 15]) {
            0 => rng.usize_below(9),
            1 => (len + rng.usize_below(3)).saturating_sub(1),
            _ => rng.usize_below(40),
        };
        Call::Spec(i, w, p)
    } else if rng.chance(25, 100) {
        // interpolated variant under a non-trivial caller spec: error-propagation invariants only
        Call::Spec(rng.usize_below(SPECS.len()), rng.usize_below(17), rng.usize_below(9))
    } else {
        Call::Spec(0, 0, 0)
    };
    let faulty = !matches!(call, Call::ToString) && rng.chance(55, 100);
    let approx = v.fixed.map(|n| n.len()).unwrap_or(12) + if let Call::Spec(_, w, _) = &call { *w / 2 } else { 0 };
    let plan = Plan::gen(rng, faulty, approx);
    // (drawn last, so that everything above is what it was before warm-up calls existed)
    let warm = if v.nfields > 0 && rng.chance(30, 100) {
        if rng.chance(50, 100) {
            gen_payload(rng, v.nfields)
        } else {
            payload.clone()
        }
    } else {
        vec![]
    };
    Script { variant: vi, payload, call, plan, warm }
}

fn minimise(case: &Case, sc: Script, sig: &str) -> Script {
    let same = |c: &Script| -> bool {
        match exec(case, c, None, false).0 {
            Err(f) => f.sig == sig,
            Ok(()) => false,
        }
    };
    let mut cur = sc;
    // plan: try none first (only possible if the signature says nofault, harmless otherwise), then smaller args
    let try_set = |cur: &mut Script, cand: Script| {
        if cand != *cur && same(&cand) {
            *cur = cand;
            true
        } else {
            false
        }
    };
    // without the warm-up call, if the violation does not need it
    if !cur.warm.is_empty() {
        let mut c = cur.clone();
        c.warm = vec![];
        try_set(&mut cur, c);
    }
    for _ in 0..3 {
        // payload towards index 0
        for i in 0..cur.payload.len() {
            for cand_v in [0u64, 1, 2, 3] {
                if cand_v >= cur.payload[i] {
                    break;
                }
                let mut c = cur.clone();
                c.payload[i] = cand_v;
                if try_set(&mut cur, c) {
                    break;
                }
            }
        }
        if let Call::Spec(i, w, p) = cur.call.clone() {
            for ci in [0usize, 1, 2, 3] {
                if ci >= i {
                    break;
                }
                let mut c = cur.clone();
                c.call = Call::Spec(ci, w, p);
                if try_set(&mut cur, c) {
                    break;
                }
            }
            if let Call::Spec(i, w, p) = cur.call.clone() {
                for cw in 0..w {
                    let mut c = cur.clone();
                    c.call = Call::Spec(i, cw, p);
                    if try_set(&mut cur, c) {
                        break;
                    }
                }
            }
            if let Call::Spec(i, w, p) = cur.call.clone() {
                for cp in 0..p {
                    let mut c = cur.clone();
                    c.call = Call::Spec(i, w, cp);
                    if try_set(&mut cur, c) {
                        break;
                    }
                }
            }
        }
        let plan_cands: Vec<Plan> = match cur.plan.clone() {
            Plan::None => vec![],
            Plan::RefuseCall(k) => (0..k).map(Plan::RefuseCall).collect(),
            Plan::RefuseFromCall(k) => (0..=k).map(Plan::RefuseCall).chain((0..k).map(Plan::RefuseFromCall)).collect(),
            Plan::ByteBudget(b) => (0..b).map(Plan::ByteBudget).collect(),
            Plan::RefuseEvery(m) => (0..8).map(Plan::RefuseCall).chain((m + 1..8).map(Plan::RefuseEvery)).collect(),
        };
        for pc in plan_cands {
            let mut c = cur.clone();
            c.plan = pc;
            if try_set(&mut cur, c) {
                break;
            }
        }
        // variant towards 0 (a simpler variant of the same enum that fails the same way)
        for cv in 0..cur.variant {
            let mut c = cur.clone();
            c.variant = cv;
            if try_set(&mut cur, c) {
                break;
            }
        }
    }
    cur
}

fn find_case<'a>(cases: &'a [Case], name: &str) -> Option<&'a Case> {
    cases.iter().find(|c| c.name == name)
}

pub fn main(cases: &'static [Case]) -> ! {
    let cli = parse_cli();
    quiet_panics();
    println!("sim_c17 seed={} profile={} corpus={} cases={} specs={} tier={}", cli.seed, PROFILE, cli.corpus_tag, cases.len(), SPECS.len(), cli.tier);
    if let Some(path) = &cli.replay {
        let rf = read_replay(path).unwrap_or_else(|e| {
            eprintln!("HARNESS-ERROR {}", e);
            std::process::exit(2)
        });
        let case = find_case(cases, &rf.case).unwrap_or_else(|| {
            eprintln!("HARNESS-ERROR unknown case {} in corpus {}", rf.case, cli.corpus_tag);
            std::process::exit(2)
        });
        let sc = Script::parse(&rf.script).unwrap_or_else(|e| {
            eprintln!("HARNESS-ERROR {}", e);
            std::process::exit(2)
        });
        let (r, info) = exec(case, &sc, None, true);
        println!("case {} {}", case.name, case.desc);
        let v = &case.variants[sc.variant % case.variants.len()];
        println!("  variant {} kind={} fixed={:?} literal={:?}", v.ident, v.kind, v.fixed, v.literal);
        for l in info.log {
            println!("  {}", l);
        }
        match r {
            Err(f) => {
                println!("REPLAY-FAILS oracle={} signature={} expected={} observed={}", f.oracle, f.sig, f.expected, f.observed);
                std::process::exit(1)
            }
            Ok(()) => {
                println!("REPLAY-PASSES");
                std::process::exit(0)
            }
        }
    }
    let usable: Vec<&Case> = cases.iter().filter(|c| !c.variants.is_empty()).collect();
    if usable.is_empty() {
        eprintln!("HARNESS-ERROR empty corpus");
        std::process::exit(2);
    }
    let t0 = now();
    let seed = cli.seed;
    let describe = |run: u64| -> Option<Violation> {
        let mut rng = Rng::for_run(seed, ENGINE_ID, 0, run);
        let case = usable[rng.usize_below(usable.len())];
        let sc = gen_script(&mut rng, case);
        Some(Violation { oracle: String::new(), signature: String::new(), run, case: case.name.to_string(), script: sc.lines(), expected: String::new(), observed: String::new() })
    };
    let mut stats = run_parallel(&cli, "C17", NAMES, &describe, |run, st| {
        let mut rng = Rng::for_run(seed, ENGINE_ID, 0, run);
        let ci = rng.usize_below(usable.len());
        let case = usable[ci];
        let sc = gen_script(&mut rng, case);
        let keep = run < 3;
        let (r, info) = exec(case, &sc, Some(st), keep);
        st.cover.insert(info.cover);
        st.cover.insert((1u64 << 60) | ((ci as u64) << 16) | (sc.variant as u64));
        if keep {
            st.samples.push(
                Json::obj()
                    .set("run", Json::u(run))
                    .set("case", Json::s(case.name))
                    .set("enum", Json::s(case.desc))
                    .set("script", Json::strs(sc.lines()))
                    .set("log", Json::strs(info.log.clone())),
            );
        }
        if let Err(f) = r {
            st.violation(Violation { oracle: f.oracle.to_string(), signature: f.sig.clone(), run, case: case.name.to_string(), script: sc.lines(), expected: f.expected, observed: f.observed });
        }
        st.end_run(run, info.trace, info.nontrivial, 1);
    });
    let wall = t0.elapsed().as_secs_f64();
    let mut candidates = Vec::new();
    let vs: Vec<Violation> = stats.violations.values().cloned().collect();
    for v in vs {
        let case = find_case(cases, &v.case).unwrap();
        let sc = Script::parse(&v.script).unwrap();
        let msc = if cli.no_minimise { sc } else { minimise(case, sc, &v.signature) };
        let (r, _) = exec(case, &msc, None, false);
        let (exp, obs) = match r {
            Err(f) => (f.expected, f.observed),
            Ok(()) => (v.expected.clone(), v.observed.clone()),
        };
        let mv = Violation { script: msc.lines(), expected: exp, observed: obs, ..v.clone() };
        let fname = format!("{}/C17-{}-{}-{}-{}.json", cli.replay_dir, PROFILE, cli.seed, mv.run, crate::c05::sanitize(&mv.signature));
        let _ = std::fs::create_dir_all(&cli.replay_dir);
        let vi = &case.variants[msc.variant % case.variants.len()];
        let j = replay_json("C17", &cli, &mv, 4)
            .set("enum", Json::s(case.desc))
            .set("variant", Json::s(vi.ident))
            .set("spec_text", Json::s(match &msc.call { Call::Spec(i, _, _) => SPECS[*i % SPECS.len()].text, Call::ToString => "to_string()" }));
        if let Err(e) = std::fs::write(&fname, j.pretty()) {
            eprintln!("HARNESS-ERROR cannot write {}: {}", fname, e);
            std::process::exit(2);
        }
        println!("CANDIDATE property=C17 signature={} oracle={} replay={}", mv.signature, mv.oracle, fname);
        candidates.push(Json::obj().set("signature", Json::s(mv.signature.clone())).set("oracle", Json::s(mv.oracle.clone())).set("replay", Json::s(fname)).set("case", Json::s(mv.case.clone())).set("script", Json::strs(mv.script.iter().cloned())));
    }
    let nvariants: usize = cases.iter().map(|c| c.variants.len()).sum();
    let extra = Json::obj()
        .set("cases", Json::u(cases.len() as u64))
        .set("variants", Json::u(nvariants as u64))
        .set("format_specs", Json::u(SPECS.len() as u64))
        .set("distinct_arm_spec_plan_outcome_and_variant_tuples", Json::u(stats.cover.len() as u64));
    let total_v = stats.violation_total;
    write_partial(&cli, "C17", "sim_c17", &mut stats, wall, extra, candidates);
    println!("sim_c17 done runs={} violations={} wall={:.2}s", stats.runs, total_v, wall);
    std::process::exit(if total_v > 0 { 1 } else { 0 })
}

//! C05 — the derived iterator obeys the double-ended, exact-size, fused iterator contract
//! under any operation history.
//!
//! Simulated system: up to MAX_HANDLES iterator handles (the real generated `EIter`), driven by a
//! seeded scheduler that picks a handle and an operation each step.
//! Reference model: `Model { lo, hi }` implementing only `next`/`next_back` over `0..N`; every
//! other operation (nth, nth_back, skip, step_by, rev, last, count) is *core's default method or
//! adapter applied to the model*, so the oracle contains no cursor arithmetic of its own.
use crate::harness::*;
use crate::json::Json;
use crate::rng::Rng;
use std::fmt::Debug;
use std::rc::Rc;
use strum::IntoEnumIterator;

pub const MAX_HANDLES: usize = 4;
pub const ENGINE_ID: u64 = 5;

// ------------------------------------------------------------------------------------------
// Payload types used by the generated corpus.

#[derive(Debug, Default, PartialEq, Clone)]
pub struct P(pub u32, pub String);

/// `!Send + !Sync`, `Default + PartialEq + Debug`, deliberately not `Clone`.
#[derive(Debug, PartialEq)]
pub struct NotSendSync(pub *const u8, pub Rc<u8>);
impl Default for NotSendSync {
    fn default() -> Self {
        NotSendSync(std::ptr::null(), Rc::new(0))
    }
}

/// Held only by disabled variants: has no `Default`, so the corpus stops compiling if the derive
/// ever constructs a disabled variant.
#[derive(Debug, PartialEq)]
pub struct NoDefault(pub u8);

thread_local! {
    static BOMB_ARMED: std::cell::Cell<bool> = const { std::cell::Cell::new(false) };
}

/// A payload whose `Default::default()` panics while the simulator has armed it (an injected fault in user code, like
/// the panicking closures of C10): the call that builds it panics, and every LATER call - on this or any other
/// iterator of the enum - must behave as if nothing had happened.
#[derive(Debug, PartialEq, Clone)]
pub struct Bomb(pub u8);
impl Default for Bomb {
    fn default() -> Self {
        if BOMB_ARMED.with(|b| b.get()) {
            panic!("injected fault: Default::default() of a payload panics");
        }
        Bomb(0)
    }
}

/// drains `it` with the bomb armed (the first variant holding a `Bomb` ends the drain in a caught panic)
fn armed_drain<I: Iterator>(mut it: I, limit: usize) {
    BOMB_ARMED.with(|b| b.set(true));
    let _ = catch(|| {
        for _ in 0..limit {
            if it.next().is_none() {
                break;
            }
        }
    });
    BOMB_ARMED.with(|b| b.set(false));
}

/// A type with an INHERENT `fn default()` next to its `Default` impl, giving different values: payload fields are
/// `Default::default()` (the trait), whatever else the type offers under that name.
#[derive(Debug, PartialEq, Clone)]
pub struct Inh(pub i32);
impl Inh {
    #[allow(clippy::should_implement_trait)]
    pub fn default() -> Inh {
        Inh(11)
    }
}
impl Default for Inh {
    fn default() -> Self {
        Inh(0)
    }
}

/// Payload for `const K: usize` enums (`[u8; K]: Default` does not exist for generic K).
#[derive(Debug, PartialEq, Clone)]
pub struct Arr<const K: usize>(pub [u8; K]);
impl<const K: usize> Default for Arr<K> {
    fn default() -> Self {
        Arr([K as u8; K])
    }
}

/// A payload whose `Default` is not the all-zero value, so "payload == Default::default()" is
/// distinguishable from "payload == zeroed".
#[derive(Debug, PartialEq, Clone)]
pub struct Seven(pub i32);
impl Default for Seven {
    fn default() -> Self {
        Seven(7)
    }
}

// ------------------------------------------------------------------------------------------
// Type-erased handle over the real iterator.

#[derive(Clone, Debug, PartialEq, Eq)]
pub enum Item {
    None,
    /// index into the expected list
    Some(usize),
    /// an item that equals no expected item (wrong payload, disabled variant, ...)
    Alien(String),
}

impl Item {
    fn code(&self) -> u64 {
        match self {
            Item::None => 0,
            Item::Some(i) => 1 + *i as u64,
            Item::Alien(_) => u64::MAX,
        }
    }
    fn show(&self) -> String {
        match self {
            Item::None => "None".into(),
            Item::Some(i) => format!("Some(#{})", i),
            Item::Alien(s) => format!("Some(<alien {}>)", s),
        }
    }
}

/// Everything the scheduler can do to one real iterator. "in place" operations go through
/// `by_ref()` and advance the handle; "by value" operations (`v_*`) consume a clone, because
/// `last`, `count`, `fold`, ... take `self` and an override of them is only reachable that way.
#[allow(unused_variables)]
pub trait IterHandle {
    fn next(&mut self) -> Item;
    fn next_back(&mut self) -> Item;
    fn nth(&mut self, n: usize) -> Item;
    fn nth_back(&mut self, n: usize) -> Item;
    /// `next()` on another OS thread, spawned and joined on the spot
    fn hop_next(&mut self) -> Item;
    /// `burst` times: a clone is drained while payload `Default`s panic (caught), then thrown away
    fn armed_clones(&self, burst: usize);
    fn len(&self) -> usize;
    fn size_hint(&self) -> (usize, Option<usize>);
    fn dup(&self) -> Box<dyn IterHandle>;
    /// `Clone::clone_from(self, other)`; `other` must wrap the same iterator type
    fn clone_from_dyn(&mut self, other: &dyn IterHandle);
    fn as_any(&self) -> &dyn std::any::Any;
    fn skip_next(&mut self, k: usize) -> Item {
        unreachable!("operation outside the core alphabet on a core-only handle")
    }
    fn step_by_take(&mut self, step: usize, take: usize) -> Vec<Item> {
        unreachable!("operation outside the core alphabet on a core-only handle")
    }
    fn rev_nth(&mut self, k: usize) -> Item {
        unreachable!("operation outside the core alphabet on a core-only handle")
    }
    fn rev_skip_next(&mut self, k: usize) -> Item {
        unreachable!("operation outside the core alphabet on a core-only handle")
    }
    fn drain_last(&mut self) -> Item {
        unreachable!("operation outside the core alphabet on a core-only handle")
    }
    fn drain_count(&mut self) -> usize {
        unreachable!("operation outside the core alphabet on a core-only handle")
    }
    // adapters whose back end depends on an exact len()
    fn take_back(&mut self, k: usize) -> Item {
        unreachable!("operation outside the core alphabet on a core-only handle")
    }
    fn skip_back(&mut self, k: usize) -> Item {
        unreachable!("operation outside the core alphabet on a core-only handle")
    }
    fn enumerate_back(&mut self) -> Option<(usize, Item)> {
        unreachable!("operation outside the core alphabet on a core-only handle")
    }
    fn step_by_back(&mut self, step: usize) -> Item {
        unreachable!("operation outside the core alphabet on a core-only handle")
    }
    // by value, on a clone
    fn v_last(&self) -> Item {
        unreachable!("operation outside the core alphabet on a core-only handle")
    }
    fn v_count(&self) -> usize {
        unreachable!("operation outside the core alphabet on a core-only handle")
    }
    fn v_fold(&self) -> Vec<Item> {
        unreachable!("operation outside the core alphabet on a core-only handle")
    }
    fn v_rfold(&self) -> Vec<Item> {
        unreachable!("operation outside the core alphabet on a core-only handle")
    }
    fn v_collect(&self) -> Vec<Item> {
        unreachable!("operation outside the core alphabet on a core-only handle")
    }
    fn v_rev_collect(&self) -> Vec<Item> {
        unreachable!("operation outside the core alphabet on a core-only handle")
    }
    fn v_position(&self, target: usize) -> Option<usize> {
        unreachable!("operation outside the core alphabet on a core-only handle")
    }
    fn v_rposition(&self, target: usize) -> Option<usize> {
        unreachable!("operation outside the core alphabet on a core-only handle")
    }
    fn v_find(&self, target: usize) -> Item {
        unreachable!("operation outside the core alphabet on a core-only handle")
    }
    fn v_rfind(&self, target: usize) -> Item {
        unreachable!("operation outside the core alphabet on a core-only handle")
    }
    // in place (`&mut self` methods that stop early and leave the rest for later calls)
    fn any_is(&mut self, target: usize) -> bool {
        unreachable!("operation outside the core alphabet on a core-only handle")
    }
    fn all_not(&mut self, target: usize) -> bool {
        unreachable!("operation outside the core alphabet on a core-only handle")
    }
    fn find_ip(&mut self, target: usize) -> Item {
        unreachable!("operation outside the core alphabet on a core-only handle")
    }
    fn rfind_ip(&mut self, target: usize) -> Item {
        unreachable!("operation outside the core alphabet on a core-only handle")
    }
    fn position_ip(&mut self, target: usize) -> Option<usize> {
        unreachable!("operation outside the core alphabet on a core-only handle")
    }
    fn rposition_ip(&mut self, target: usize) -> Option<usize> {
        unreachable!("operation outside the core alphabet on a core-only handle")
    }
    /// clone.cycle().take(t)
    fn v_cycle_take(&self, t: usize) -> Vec<Item> {
        unreachable!("operation outside the core alphabet on a core-only handle")
    }
    /// clone.zip(clone.rev()) as (front item, back item) pairs, flattened
    fn v_zip_rev(&self) -> Vec<Item> {
        unreachable!("operation outside the core alphabet on a core-only handle")
    }
    /// clone.chain(clone).skip(k).collect()
    fn v_chain_skip(&self, k: usize) -> Vec<Item> {
        unreachable!("operation outside the core alphabet on a core-only handle")
    }
    /// peekable: peek, next, peek, next_if(..), ... rendered as the items seen
    fn v_peekable(&self) -> Vec<Item> {
        unreachable!("operation outside the core alphabet on a core-only handle")
    }
    /// clone.eq(clone) and clone.ne(clone.skip(1)) through Iterator::eq on item identity
    fn v_iter_eq(&self) -> (bool, bool) {
        unreachable!("operation outside the core alphabet on a core-only handle")
    }
    /// remaining items front to back, pulled one by one from a clone (bounded)
    fn rest(&self) -> Vec<Item>;
    /// remaining items back to front, pulled one by one from a clone (bounded)
    fn rest_rev(&self) -> Vec<Item>;
    /// (clone.nth(j), clone.nth_back(j)) on two fresh clones: a spot check of the remaining window
    fn probe(&self, j: usize) -> (Item, Item);
    /// where the reference model expects the next answers to come from (front / back): tried first when an item is
    /// identified, a pure speed-up for enums with tens of thousands of variants (identity is still decided by `==`)
    fn hint(&self, _front: usize, _back: usize) {}
    /// what comes after the last remaining item, from both ends, on fresh clones:
    /// (nth(len), nth_back(len), next() after nth(len-1), next_back() after nth_back(len-1)) - all must be None
    fn probe_past_end(&self, len: usize) -> [Item; 4];
    fn debug_fmt(&self) -> String;
}

/// Carries a value across the spawn / join of `hop_next`. The two threads never run at the same time, so nothing is
/// shared concurrently; the wrapper only says so to the compiler (the payload types of the corpus need not be Send).
struct Carry<T>(T);
unsafe impl<T> Send for Carry<T> {}

fn next_on_another_thread<I: Iterator>(it: &mut I) -> Option<I::Item> {
    let p = Carry(it as *mut I);
    let r = std::thread::scope(|s| {
        s.spawn(move || {
            let p = p;
            // SAFETY: the spawning thread is blocked in join() until this closure returns
            Carry(unsafe { (*p.0).next() })
        })
        .join()
    });
    match r {
        Ok(c) => c.0,
        Err(e) => std::panic::resume_unwind(e),
    }
}

pub struct H<E: IntoEnumIterator + 'static> {
    it: E::Iterator,
    exp: Rc<Vec<E>>,
    /// index of the item identified last: items mostly come out next to each other, so the
    /// neighbours are tried before the linear search (matters for enums with thousands of variants)
    near: std::cell::Cell<usize>,
    hints: std::cell::Cell<(usize, usize)>,
}

impl<E: IntoEnumIterator + PartialEq + Debug + 'static> H<E> {
    fn id(&self, x: Option<E>) -> Item {
        match x {
            None => Item::None,
            Some(v) => {
                let n = self.exp.len();
                let c = self.near.get();
                let (h1, h2) = self.hints.get();
                for cand in [c.wrapping_add(1), c.wrapping_sub(1), c, h1, h2, h1.wrapping_add(1), h2.wrapping_sub(1)] {
                    if cand < n && self.exp[cand] == v {
                        self.near.set(cand);
                        return Item::Some(cand);
                    }
                }
                match self.exp.iter().position(|e| *e == v) {
                    Some(i) => {
                        self.near.set(i);
                        Item::Some(i)
                    }
                    None => Item::Alien(format!("{:?}", v)),
                }
            }
        }
    }
    fn ids(&self, v: Vec<E>) -> Vec<Item> {
        v.into_iter().map(|e| self.id(Some(e))).collect()
    }
    fn is(&self, e: &E, target: usize) -> bool {
        target < self.exp.len() && *e == self.exp[target]
    }
}

impl<E> IterHandle for H<E>
where
    E: IntoEnumIterator + PartialEq + Debug + 'static,
    E::Iterator: Debug,
{
    fn next(&mut self) -> Item {
        let x = self.it.next();
        self.id(x)
    }
    fn next_back(&mut self) -> Item {
        let x = self.it.next_back();
        self.id(x)
    }
    fn nth(&mut self, n: usize) -> Item {
        let x = self.it.nth(n);
        self.id(x)
    }
    fn nth_back(&mut self, n: usize) -> Item {
        let x = self.it.nth_back(n);
        self.id(x)
    }
    fn hop_next(&mut self) -> Item {
        let x = next_on_another_thread(&mut self.it);
        self.id(x)
    }
    fn armed_clones(&self, burst: usize) {
        let limit = (self.exp.len() + 2).min(400);
        for _ in 0..burst {
            armed_drain(self.it.clone(), limit);
        }
    }
    fn len(&self) -> usize {
        self.it.len()
    }
    fn size_hint(&self) -> (usize, Option<usize>) {
        self.it.size_hint()
    }
    fn dup(&self) -> Box<dyn IterHandle> {
        Box::new(H::<E> { it: self.it.clone(), exp: self.exp.clone(), near: std::cell::Cell::new(self.near.get()), hints: std::cell::Cell::new(self.hints.get()) })
    }
    fn clone_from_dyn(&mut self, other: &dyn IterHandle) {
        if let Some(o) = other.as_any().downcast_ref::<H<E>>() {
            self.it.clone_from(&o.it);
        }
    }
    fn as_any(&self) -> &dyn std::any::Any {
        self
    }
    fn skip_next(&mut self, k: usize) -> Item {
        let x = self.it.by_ref().skip(k).next();
        self.id(x)
    }
    fn step_by_take(&mut self, step: usize, take: usize) -> Vec<Item> {
        let v: Vec<E> = self.it.by_ref().step_by(step).take(take).collect();
        self.ids(v)
    }
    fn rev_nth(&mut self, k: usize) -> Item {
        let x = self.it.by_ref().rev().nth(k);
        self.id(x)
    }
    fn rev_skip_next(&mut self, k: usize) -> Item {
        let x = self.it.by_ref().rev().skip(k).next();
        self.id(x)
    }
    fn drain_last(&mut self) -> Item {
        let x = self.it.by_ref().last();
        self.id(x)
    }
    fn drain_count(&mut self) -> usize {
        self.it.by_ref().count()
    }
    fn take_back(&mut self, k: usize) -> Item {
        let x = self.it.by_ref().take(k).next_back();
        self.id(x)
    }
    fn skip_back(&mut self, k: usize) -> Item {
        let x = self.it.by_ref().skip(k).next_back();
        self.id(x)
    }
    fn enumerate_back(&mut self) -> Option<(usize, Item)> {
        let x = self.it.by_ref().enumerate().next_back();
        x.map(|(i, e)| (i, self.id(Some(e))))
    }
    fn step_by_back(&mut self, step: usize) -> Item {
        let x = self.it.by_ref().step_by(step).next_back();
        self.id(x)
    }
    fn v_last(&self) -> Item {
        let x = self.it.clone().last();
        self.id(x)
    }
    fn v_count(&self) -> usize {
        self.it.clone().count()
    }
    fn v_fold(&self) -> Vec<Item> {
        let v = self.it.clone().fold(Vec::new(), |mut a, e| {
            if a.len() <= self.exp.len() + 2 {
                a.push(e);
            }
            a
        });
        self.ids(v)
    }
    fn v_rfold(&self) -> Vec<Item> {
        let v = self.it.clone().rfold(Vec::new(), |mut a, e| {
            if a.len() <= self.exp.len() + 2 {
                a.push(e);
            }
            a
        });
        self.ids(v)
    }
    fn v_collect(&self) -> Vec<Item> {
        let v: Vec<E> = self.it.clone().take(self.exp.len() + 2).collect();
        self.ids(v)
    }
    fn v_rev_collect(&self) -> Vec<Item> {
        let v: Vec<E> = self.it.clone().rev().take(self.exp.len() + 2).collect();
        self.ids(v)
    }
    fn v_position(&self, target: usize) -> Option<usize> {
        self.it.clone().position(|e| self.is(&e, target))
    }
    fn v_rposition(&self, target: usize) -> Option<usize> {
        self.it.clone().rposition(|e| self.is(&e, target))
    }
    fn v_find(&self, target: usize) -> Item {
        let x = self.it.clone().find(|e| self.is(e, target));
        self.id(x)
    }
    fn v_rfind(&self, target: usize) -> Item {
        let x = self.it.clone().rfind(|e| self.is(e, target));
        self.id(x)
    }
    fn any_is(&mut self, target: usize) -> bool {
        let exp = self.exp.clone();
        self.it.any(|e| target < exp.len() && e == exp[target])
    }
    fn all_not(&mut self, target: usize) -> bool {
        let exp = self.exp.clone();
        self.it.all(|e| !(target < exp.len() && e == exp[target]))
    }
    fn find_ip(&mut self, target: usize) -> Item {
        let exp = self.exp.clone();
        let x = self.it.find(|e| target < exp.len() && *e == exp[target]);
        self.id(x)
    }
    fn rfind_ip(&mut self, target: usize) -> Item {
        let exp = self.exp.clone();
        let x = self.it.rfind(|e| target < exp.len() && *e == exp[target]);
        self.id(x)
    }
    fn position_ip(&mut self, target: usize) -> Option<usize> {
        let exp = self.exp.clone();
        self.it.position(|e| target < exp.len() && e == exp[target])
    }
    fn rposition_ip(&mut self, target: usize) -> Option<usize> {
        let exp = self.exp.clone();
        self.it.rposition(|e| target < exp.len() && e == exp[target])
    }
    fn v_cycle_take(&self, t: usize) -> Vec<Item> {
        let v: Vec<E> = self.it.clone().cycle().take(t).collect();
        self.ids(v)
    }
    fn v_zip_rev(&self) -> Vec<Item> {
        let lim = self.exp.len() + 2;
        let mut out = Vec::new();
        for (a, b) in self.it.clone().zip(self.it.clone().rev()).take(lim) {
            out.push(self.id(Some(a)));
            out.push(self.id(Some(b)));
        }
        out
    }
    fn v_chain_skip(&self, k: usize) -> Vec<Item> {
        let lim = 2 * self.exp.len() + 2;
        let v: Vec<E> = self.it.clone().chain(self.it.clone()).skip(k).take(lim).collect();
        self.ids(v)
    }
    fn v_peekable(&self) -> Vec<Item> {
        let mut p = self.it.clone().peekable();
        let mut out = Vec::new();
        for round in 0..(self.exp.len() + 2) {
            let seen = p.peek().map(|e| self.exp.iter().position(|x| x == e));
            match seen {
                None => {
                    out.push(Item::None);
                    break;
                }
                Some(Some(i)) => out.push(Item::Some(i)),
                Some(None) => out.push(Item::Alien("peeked".into())),
            }
            let nx = if round % 2 == 0 { p.next() } else { p.next_if(|_| true) };
            out.push(self.id(nx));
        }
        out
    }
    fn v_iter_eq(&self) -> (bool, bool) {
        let key = |e: E| self.exp.iter().position(|x| *x == e);
        let a = self.it.clone().map(key).eq(self.it.clone().map(key));
        let b = self.it.clone().map(key).eq(self.it.clone().skip(1).map(key));
        (a, b)
    }
    fn rest(&self) -> Vec<Item> {
        // bounded: a broken iterator must not hang the simulator
        let mut c = self.it.clone();
        let mut out = Vec::new();
        for _ in 0..(self.exp.len() + 2) {
            match c.next() {
                Some(e) => out.push(self.id(Some(e))),
                None => break,
            }
        }
        out
    }
    fn rest_rev(&self) -> Vec<Item> {
        let mut c = self.it.clone();
        let mut out = Vec::new();
        for _ in 0..(self.exp.len() + 2) {
            match c.next_back() {
                Some(e) => out.push(self.id(Some(e))),
                None => break,
            }
        }
        out
    }
    fn hint(&self, front: usize, back: usize) {
        self.hints.set((front, back));
    }
    fn probe(&self, j: usize) -> (Item, Item) {
        let a = self.it.clone().nth(j);
        let b = self.it.clone().nth_back(j);
        (self.id(a), self.id(b))
    }
    fn probe_past_end(&self, len: usize) -> [Item; 4] {
        let a = self.it.clone().nth(len);
        let b = self.it.clone().nth_back(len);
        let mut c = self.it.clone();
        if len > 0 {
            c.nth(len - 1);
        }
        let c = c.next();
        let mut d = self.it.clone();
        if len > 0 {
            d.nth_back(len - 1);
        }
        let d = d.next_back();
        [self.id(a), self.id(b), self.id(c), self.id(d)]
    }
    fn debug_fmt(&self) -> String {
        format!("{:?}", self.it)
    }
}

/// A handle that offers only the operations the statement names (next, next_back, nth, nth_back, len, size_hint, clone,
/// clone_from, Debug): used for the enums around 2^16 variants, where every further adapter instantiation inlines a
/// 65 536-arm match once more and costs minutes of compile time.
pub struct HC<E: IntoEnumIterator + 'static>(H<E>);

impl<E> IterHandle for HC<E>
where
    E: IntoEnumIterator + PartialEq + Debug + 'static,
    E::Iterator: Debug,
{
    fn next(&mut self) -> Item {
        let x = self.0.it.next();
        self.0.id(x)
    }
    fn next_back(&mut self) -> Item {
        let x = self.0.it.next_back();
        self.0.id(x)
    }
    fn nth(&mut self, n: usize) -> Item {
        let x = self.0.it.nth(n);
        self.0.id(x)
    }
    fn nth_back(&mut self, n: usize) -> Item {
        let x = self.0.it.nth_back(n);
        self.0.id(x)
    }
    fn hop_next(&mut self) -> Item {
        let x = next_on_another_thread(&mut self.0.it);
        self.0.id(x)
    }
    fn armed_clones(&self, burst: usize) {
        for _ in 0..burst.min(2) {
            armed_drain(self.0.it.clone(), 64);
        }
    }
    fn len(&self) -> usize {
        self.0.it.len()
    }
    fn size_hint(&self) -> (usize, Option<usize>) {
        self.0.it.size_hint()
    }
    fn dup(&self) -> Box<dyn IterHandle> {
        Box::new(HC(H::<E> { it: self.0.it.clone(), exp: self.0.exp.clone(), near: std::cell::Cell::new(self.0.near.get()), hints: std::cell::Cell::new(self.0.hints.get()) }))
    }
    fn clone_from_dyn(&mut self, other: &dyn IterHandle) {
        if let Some(o) = other.as_any().downcast_ref::<HC<E>>() {
            self.0.it.clone_from(&o.0.it);
        }
    }
    fn as_any(&self) -> &dyn std::any::Any {
        self
    }
    fn rest(&self) -> Vec<Item> {
        let mut c = self.0.it.clone();
        let mut out = Vec::new();
        for _ in 0..(self.0.exp.len() + 2) {
            match c.next() {
                Some(e) => out.push(self.0.id(Some(e))),
                None => break,
            }
        }
        out
    }
    fn rest_rev(&self) -> Vec<Item> {
        let mut c = self.0.it.clone();
        let mut out = Vec::new();
        for _ in 0..(self.0.exp.len() + 2) {
            match c.next_back() {
                Some(e) => out.push(self.0.id(Some(e))),
                None => break,
            }
        }
        out
    }
    fn hint(&self, front: usize, back: usize) {
        self.0.hints.set((front, back));
    }
    fn probe(&self, j: usize) -> (Item, Item) {
        let a = self.0.it.clone().nth(j);
        let b = self.0.it.clone().nth_back(j);
        (self.0.id(a), self.0.id(b))
    }
    fn probe_past_end(&self, len: usize) -> [Item; 4] {
        let a = self.0.it.clone().nth(len);
        let b = self.0.it.clone().nth_back(len);
        let mut c = self.0.it.clone();
        if len > 0 {
            c.nth(len - 1);
        }
        let c = c.next();
        let mut d = self.0.it.clone();
        if len > 0 {
            d.nth_back(len - 1);
        }
        let d = d.next_back();
        [self.0.id(a), self.0.id(b), self.0.id(c), self.0.id(d)]
    }
    fn debug_fmt(&self) -> String {
        format!("{:?}", self.0.it)
    }
}

/// see `HC`
pub fn mk_core<E>(expected: Vec<E>) -> Box<dyn IterHandle>
where
    E: IntoEnumIterator + PartialEq + Debug + 'static,
    E::Iterator: Debug,
{
    Box::new(HC(H::<E> { it: E::iter(), exp: Rc::new(expected), near: std::cell::Cell::new(0), hints: std::cell::Cell::new((0, 0)) }))
}

/// set by `main_core`: the scheduler then draws from the core alphabet only
pub static CORE_ONLY: std::sync::atomic::AtomicBool = std::sync::atomic::AtomicBool::new(false);

pub fn mk<E>(expected: Vec<E>) -> Box<dyn IterHandle>
where
    E: IntoEnumIterator + PartialEq + Debug + 'static,
    E::Iterator: Debug,
{
    Box::new(H::<E> { it: E::iter(), exp: Rc::new(expected), near: std::cell::Cell::new(0), hints: std::cell::Cell::new((0, 0)) })
}

pub struct Case {
    pub name: &'static str,
    /// number of enabled variants, as written by the corpus generator (not asked from strum)
    pub n: usize,
    pub desc: &'static str,
    pub make: fn() -> Box<dyn IterHandle>,
}

// ------------------------------------------------------------------------------------------
// Reference model: only `next` and `next_back` are written here; every other operation is core's
// default method or adapter applied to the model.

#[derive(Clone, Debug)]
pub struct Model {
    lo: usize,
    hi: usize,
}
impl Iterator for Model {
    type Item = usize;
    fn next(&mut self) -> Option<usize> {
        if self.lo < self.hi {
            self.lo += 1;
            Some(self.lo - 1)
        } else {
            None
        }
    }
    fn size_hint(&self) -> (usize, Option<usize>) {
        (self.hi - self.lo, Some(self.hi - self.lo))
    }
}
impl DoubleEndedIterator for Model {
    fn next_back(&mut self) -> Option<usize> {
        if self.lo < self.hi {
            self.hi -= 1;
            Some(self.hi)
        } else {
            None
        }
    }
}
impl ExactSizeIterator for Model {}

fn mi(x: Option<usize>) -> Item {
    match x {
        None => Item::None,
        Some(i) => Item::Some(i),
    }
}

// ------------------------------------------------------------------------------------------
// Operations.

#[derive(Clone, Copy, Debug, PartialEq, Eq)]
pub enum Kind {
    Next,
    NextBack,
    Nth,
    NthBack,
    Len,
    SizeHint,
    Clone,
    Drop,
    SkipNext,
    StepBy,
    RevNth,
    RevSkipNext,
    DrainLast,
    DrainCount,
    DebugFmt,
    Iter,
    TakeBack,
    SkipBack,
    EnumerateBack,
    StepByBack,
    VLast,
    VCount,
    VFold,
    VRfold,
    VCollect,
    VRevCollect,
    VPosition,
    VRposition,
    VFind,
    VRfind,
    /// `handles[h].clone_from(&handles[k])`
    CloneFrom,
    VCycleTake,
    VZipRev,
    VChainSkip,
    VPeekable,
    VIterEq,
    Any,
    All,
    Find,
    Rfind,
    Position,
    Rposition,
    /// `next()` executed on ANOTHER OS thread (spawned and joined on the spot, so the history stays sequential): the
    /// iterator is Send, nothing about it may depend on the thread that happens to drive it
    HopNext,
    /// clones of the handle are drained while the `Default` of `Bomb` payloads panics (caught); k picks the burst size.
    /// The handle itself and the model are untouched: whatever the panics leave behind must not reach later calls.
    Armed,
}

/// (kind, script name, takes k, takes t)
pub const KINDS: &[(Kind, &str, bool, bool)] = &[
    (Kind::Next, "next", false, false),
    (Kind::NextBack, "next_back", false, false),
    (Kind::Nth, "nth", true, false),
    (Kind::NthBack, "nth_back", true, false),
    (Kind::Len, "len", false, false),
    (Kind::SizeHint, "size_hint", false, false),
    (Kind::Clone, "clone", false, false),
    (Kind::Drop, "drop", false, false),
    (Kind::SkipNext, "skip_next", true, false),
    (Kind::StepBy, "step_by", true, true),
    (Kind::RevNth, "rev_nth", true, false),
    (Kind::RevSkipNext, "rev_skip_next", true, false),
    (Kind::DrainLast, "last", false, false),
    (Kind::DrainCount, "count", false, false),
    (Kind::DebugFmt, "debug_fmt", false, false),
    (Kind::Iter, "iter", false, false),
    (Kind::TakeBack, "take_back", true, false),
    (Kind::SkipBack, "skip_back", true, false),
    (Kind::EnumerateBack, "enumerate_back", false, false),
    (Kind::StepByBack, "step_by_back", true, false),
    (Kind::VLast, "v_last", false, false),
    (Kind::VCount, "v_count", false, false),
    (Kind::VFold, "v_fold", false, false),
    (Kind::VRfold, "v_rfold", false, false),
    (Kind::VCollect, "v_collect", false, false),
    (Kind::VRevCollect, "v_rev_collect", false, false),
    (Kind::VPosition, "v_position", true, false),
    (Kind::VRposition, "v_rposition", true, false),
    (Kind::VFind, "v_find", true, false),
    (Kind::VRfind, "v_rfind", true, false),
    (Kind::CloneFrom, "clone_from", true, false),
    (Kind::VCycleTake, "v_cycle_take", true, false),
    (Kind::VZipRev, "v_zip_rev", false, false),
    (Kind::VChainSkip, "v_chain_skip", true, false),
    (Kind::VPeekable, "v_peekable", false, false),
    (Kind::VIterEq, "v_iter_eq", false, false),
    (Kind::Any, "any", true, false),
    (Kind::All, "all", true, false),
    (Kind::Find, "find", true, false),
    (Kind::Rfind, "rfind", true, false),
    (Kind::Position, "position", true, false),
    (Kind::Rposition, "rposition", true, false),
    (Kind::HopNext, "hop_next", false, false),
    (Kind::Armed, "armed", true, false),
];

#[derive(Clone, Debug, PartialEq)]
pub struct Op {
    pub kind: Kind,
    pub h: usize,
    pub k: usize,
    pub t: usize,
}

impl Op {
    pub fn new(kind: Kind, h: usize) -> Op {
        Op { kind, h, k: 0, t: 0 }
    }
    pub fn with(kind: Kind, h: usize, k: usize) -> Op {
        let k = if matches!(kind, Kind::StepBy | Kind::StepByBack) { k.max(1) } else { k };
        Op { kind, h, k, t: 0 }
    }
    pub fn idx(&self) -> usize {
        KINDS.iter().position(|e| e.0 == self.kind).unwrap()
    }
    pub fn name(&self) -> &'static str {
        KINDS[self.idx()].1
    }
    pub fn has_k(&self) -> bool {
        KINDS[self.idx()].2
    }
    /// k arguments that are *counts* (where "huge" means something); targets of find/position are not
    pub fn k_is_count(&self) -> bool {
        self.has_k() && !matches!(self.kind, Kind::VPosition | Kind::VRposition | Kind::VFind | Kind::VRfind | Kind::CloneFrom | Kind::VCycleTake | Kind::Any | Kind::All | Kind::Find | Kind::Rfind | Kind::Position | Kind::Rposition | Kind::Armed)
    }
    pub fn kopt(&self) -> Option<usize> {
        if self.k_is_count() {
            Some(self.k)
        } else {
            None
        }
    }
    pub fn line(&self) -> String {
        let e = &KINDS[self.idx()];
        match (e.2, e.3) {
            (true, true) => format!("{} {} {} {}", e.1, self.h, self.k, self.t),
            (true, false) => format!("{} {} {}", e.1, self.h, self.k),
            _ => format!("{} {}", e.1, self.h),
        }
    }
    pub fn parse(line: &str) -> Result<Op, String> {
        let p: Vec<&str> = line.split_whitespace().collect();
        let num = |i: usize| -> Result<usize, String> {
            p.get(i).ok_or(format!("missing arg in {:?}", line))?.parse::<usize>().map_err(|e| format!("{:?}: {}", line, e))
        };
        if p.is_empty() {
            return Err("empty op".into());
        }
        let e = KINDS.iter().find(|e| e.1 == p[0]).ok_or(format!("unknown op {:?}", p[0]))?;
        let mut op = Op::new(e.0, num(1)?);
        if e.2 {
            op.k = num(2)?;
            if matches!(e.0, Kind::StepBy | Kind::StepByBack) {
                op.k = op.k.max(1);
            }
        }
        if e.3 {
            op.t = num(3)?;
        }
        Ok(op)
    }
}

fn ksize(k: Option<usize>) -> &'static str {
    match k {
        None => "-",
        Some(k) if k <= 64 => "small",
        Some(_) => "huge",
    }
}

// counters: fault kinds / reach probes first, then one counter per operation kind (OP0 + Op::idx())
pub const NAMES: &[&str] = &[
    "fault_huge_n_fresh", "fault_huge_n_after_front", "fault_huge_n_after_back", "fault_huge_n_after_both",
    "fault_huge_n_from_back", "probe_nth_past_end_with_back_consumed", "probe_next_back_after_front_exhausted",
    "probe_next_after_back_exhausted", "probe_op_after_exhaustion", "probe_clone_after_next_back",
    "probe_adapter_skip_huge", "probe_adapter_step_by_huge", "probe_n_equals_remaining",
    "probe_n_equals_remaining_minus_1", "probe_n_equals_remaining_plus_1", "probe_clone_diverged",
    "probe_meet_in_middle", "probe_run_with_huge", "probe_run_without_huge", "probe_empty_enum_run",
    "probe_yielded_some", "probe_yielded_none", "probe_run_started_at_random_cursor_state",
    "probe_len_dependent_adapter_after_both_ends_moved",
    // --- per operation kind, same order as KINDS
    "op_next", "op_next_back", "op_nth", "op_nth_back", "op_len", "op_size_hint", "op_clone", "op_drop", "op_skip_next",
    "op_step_by", "op_rev_nth", "op_rev_skip_next", "op_last", "op_count", "op_debug_fmt", "op_iter", "op_take_back",
    "op_skip_back", "op_enumerate_back", "op_step_by_back", "op_v_last", "op_v_count", "op_v_fold", "op_v_rfold",
    "op_v_collect", "op_v_rev_collect", "op_v_position", "op_v_rposition", "op_v_find", "op_v_rfind", "op_clone_from",
    "op_v_cycle_take", "op_v_zip_rev", "op_v_chain_skip", "op_v_peekable", "op_v_iter_eq",
    "op_any", "op_all", "op_find", "op_rfind", "op_position", "op_rposition", "op_hop_next", "op_armed",
];
const C_HUGE_FRESH: usize = 0;
const C_HUGE_FRONT: usize = 1;
const C_HUGE_BACK: usize = 2;
const C_HUGE_BOTH: usize = 3;
const C_HUGE_FROM_BACK: usize = 4;
const C_NTH_PAST_END_BACK: usize = 5;
const C_NB_AFTER_FRONT_EXH: usize = 6;
const C_N_AFTER_BACK_EXH: usize = 7;
const C_OP_AFTER_EXH: usize = 8;
const C_CLONE_AFTER_NB: usize = 9;
const C_SKIP_HUGE: usize = 10;
const C_STEP_HUGE: usize = 11;
const C_N_EQ_REM: usize = 12;
const C_N_EQ_REM_M1: usize = 13;
const C_N_EQ_REM_P1: usize = 14;
const C_CLONE_DIVERGED: usize = 15;
const C_MEET: usize = 16;
const C_RUN_HUGE: usize = 17;
const C_RUN_NOHUGE: usize = 18;
const C_EMPTY_RUN: usize = 19;
const C_SOME: usize = 20;
const C_NONE: usize = 21;
pub const C_JUMP_START: usize = 22;
const C_LEN_ADAPTER_BOTH: usize = 23;
const OP0: usize = 24;

// ------------------------------------------------------------------------------------------
// World: executes a script against real handles and the model, checking invariants.

pub struct Failure {
    pub oracle: &'static str,
    pub step: usize,
    pub op: Option<Op>,
    pub expected: String,
    pub observed: String,
}

impl Failure {
    pub fn signature(&self) -> String {
        match &self.op {
            Some(o) => format!("{}:{}:{}", self.oracle, o.name(), ksize(o.kopt())),
            None => format!("{}:init:-", self.oracle),
        }
    }
}

struct Slot {
    real: Box<dyn IterHandle>,
    model: Model,
    consumed_back: bool,
    /// id of the handle it was cloned from (for the divergence probe)
    parent: Option<usize>,
}

pub struct Exec<'a> {
    pub case: &'a Case,
    pub trace: TraceHash,
    pub steps: u64,
    pub nontrivial: bool,
    pub log: Option<Vec<String>>,
}

pub const FULL_DRAIN_LIMIT: usize = 300;

fn show_items_short(v: &[Item]) -> String {
    if v.len() <= 40 {
        show_items(v)
    } else {
        format!("{} items: {} ... {}", v.len(), show_items(&v[..8]), show_items(&v[v.len() - 8..]))
    }
}

fn show_items(v: &[Item]) -> String {
    let parts: Vec<String> = v.iter().map(|i| i.show()).collect();
    format!("[{}]", parts.join(", "))
}

impl<'a> Exec<'a> {
    pub fn new(case: &'a Case, keep_log: bool) -> Self {
        Exec { case, trace: TraceHash::new(), steps: 0, nontrivial: false, log: if keep_log { Some(Vec::new()) } else { None } }
    }

    fn note(&mut self, s: impl FnOnce() -> String) {
        if let Some(l) = &mut self.log {
            l.push(s());
        }
    }

    /// Invariants for one handle: len, size_hint, full remaining contents from both ends.
    fn check_slot(&mut self, step: usize, op: Option<&Op>, s: &Slot) -> Result<(), Failure> {
        let n = self.case.n;
        let m = &s.model;
        let want_len = m.hi - m.lo;
        let fail = |oracle: &'static str, e: String, o: String| Failure { oracle, step, op: op.cloned(), expected: e, observed: o };
        let len = catch(|| s.real.len()).map_err(|p| fail("panic_len", "no panic".into(), format!("panic: {}", p)))?;
        self.trace.u(len as u64);
        if len != want_len {
            return Err(fail("len", want_len.to_string(), len.to_string()));
        }
        let sh = catch(|| s.real.size_hint()).map_err(|p| fail("panic_size_hint", "no panic".into(), format!("panic: {}", p)))?;
        if sh != (want_len, Some(want_len)) {
            return Err(fail("size_hint", format!("({}, Some({}))", want_len, want_len), format!("{:?}", sh)));
        }
        if want_len <= FULL_DRAIN_LIMIT || (step == 0 && want_len <= 5000) {
            let rest = catch(|| s.real.rest()).map_err(|p| fail("panic_state", "no panic".into(), format!("panic while draining a clone: {}", p)))?;
            let want: Vec<Item> = (m.lo..m.hi).map(Item::Some).collect();
            if rest != want {
                return Err(fail("state_forward", show_items_short(&want), show_items_short(&rest)));
            }
            let rrest = catch(|| s.real.rest_rev()).map_err(|p| fail("panic_state", "no panic".into(), format!("panic while draining a clone backwards: {}", p)))?;
            let wantr: Vec<Item> = (m.lo..m.hi).rev().map(Item::Some).collect();
            if rrest != wantr {
                return Err(fail("state_backward", show_items_short(&wantr), show_items_short(&rrest)));
            }
        } else {
            // thousands of remaining items: spot-check both ends and two interior positions per step
            // instead of draining everything (the full drain still happens at step 0 of every run)
            let mut positions = vec![0usize, want_len - 1, (step * 7919 + m.lo * 31) % want_len];
            if step == 0 {
                // a fresh iterator over a huge enum: every index next to a power of two, both ends
                for b in 1..usize::BITS {
                    let p = 1usize << b;
                    for j in [p - 1, p, p + 1] {
                        if j < want_len {
                            positions.push(j);
                        }
                    }
                }
                positions.push(want_len / 2);
                positions.push(want_len - 2);
            }
            let past = catch(|| s.real.probe_past_end(want_len)).map_err(|p| fail("panic_state", "no panic".into(), format!("panic while probing past the end of a clone: {}", p)))?;
            if past.iter().any(|x| *x != Item::None) {
                return Err(fail("state_forward", "None after the last remaining item, from both ends".into(), show_items(&past)));
            }
            for j in positions {
                s.real.hint(m.lo + j, m.hi - 1 - j);
                let (a, b) = catch(|| s.real.probe(j)).map_err(|p| fail("panic_state", "no panic".into(), format!("panic while probing a clone: {}", p)))?;
                let (wa, wb) = (Item::Some(m.lo + j), Item::Some(m.hi - 1 - j));
                if a != wa {
                    return Err(fail("state_forward", format!("clone.nth({}) = {}", j, wa.show()), a.show()));
                }
                if b != wb {
                    return Err(fail("state_backward", format!("clone.nth_back({}) = {}", j, wb.show()), b.show()));
                }
            }
        }
        debug_assert!(m.hi <= n);
        Ok(())
    }

    /// Runs `ops`; returns the first failure. `stats` (if given) receives reach probes and coverage.
    pub fn run(&mut self, ops: &[Op], mut stats: Option<&mut Stats>) -> Result<(), Failure> {
        let n = self.case.n;
        let case = self.case;
        let real0 = catch(|| (case.make)()).map_err(|p| Failure { oracle: "panic_iter", step: 0, op: None, expected: "no panic".into(), observed: format!("panic: {}", p) })?;
        let mut slots: Vec<Slot> = vec![Slot { real: real0, model: Model { lo: 0, hi: n }, consumed_back: false, parent: None }];
        self.trace.s(self.case.name);
        {
            let s0 = slots.remove(0);
            let r = self.check_slot(0, None, &s0);
            slots.push(s0);
            r?;
        }
        let mut saw_huge = false;
        for (si, op) in ops.iter().enumerate() {
            let step = si + 1;
            self.steps += 1;
            let hi = op.h % slots.len();
            let (lo_b, hi_b) = (slots[hi].model.lo, slots[hi].model.hi);
            let rem = hi_b - lo_b;
            let front = lo_b;
            let back = n - hi_b;
            let kidx = op.idx();
            {
                let k = if op.has_k() { op.k } else { 0 };
                slots[hi].real.hint(lo_b.saturating_add(k), hi_b.wrapping_sub(1).wrapping_sub(k));
            }
            self.trace.u(kidx as u64);
            self.trace.u(hi as u64);
            if op.has_k() {
                self.trace.u(op.k as u64);
            }
            if let Some(st) = stats.as_deref_mut() {
                st.hit(OP0 + kidx);
                // state coverage: (N, front, back, op kind, k class)
                let kc: u64 = match op.kopt() {
                    None => 0,
                    Some(k) if k < rem => 1,
                    Some(k) if k == rem => 2,
                    Some(k) if k <= 64 => 3,
                    Some(_) => 4,
                };
                st.cover.insert(((n as u64) << 32) | ((front as u64) << 24) | ((back as u64) << 16) | ((kidx as u64) << 8) | kc);
                if let Some(k) = op.kopt() {
                    let from_back = matches!(op.kind, Kind::NthBack | Kind::RevNth | Kind::RevSkipNext);
                    if k > 64 {
                        saw_huge = true;
                        if from_back {
                            st.hit(C_HUGE_FROM_BACK);
                        }
                        match (front > 0, back > 0) {
                            (false, false) => st.hit(C_HUGE_FRESH),
                            (true, false) => st.hit(C_HUGE_FRONT),
                            (false, true) => st.hit(C_HUGE_BACK),
                            (true, true) => st.hit(C_HUGE_BOTH),
                        }
                        if matches!(op.kind, Kind::SkipNext | Kind::RevSkipNext | Kind::SkipBack) {
                            st.hit(C_SKIP_HUGE);
                        }
                        if matches!(op.kind, Kind::StepBy | Kind::StepByBack) {
                            st.hit(C_STEP_HUGE);
                        }
                    }
                    if !matches!(op.kind, Kind::StepBy | Kind::StepByBack) {
                        if k == rem {
                            st.hit(C_N_EQ_REM);
                        }
                        if k.checked_add(1) == Some(rem) {
                            st.hit(C_N_EQ_REM_M1);
                        }
                        if k == rem + 1 {
                            st.hit(C_N_EQ_REM_P1);
                        }
                        if matches!(op.kind, Kind::Nth | Kind::SkipNext) && k >= rem && back > 0 {
                            st.hit(C_NTH_PAST_END_BACK);
                        }
                    }
                }
                if matches!(op.kind, Kind::TakeBack | Kind::SkipBack | Kind::EnumerateBack | Kind::StepByBack) && front > 0 && back > 0 {
                    st.hit(C_LEN_ADAPTER_BOTH);
                }
                if rem == 0 && !matches!(op.kind, Kind::Clone | Kind::Drop | Kind::Iter) {
                    st.hit(C_OP_AFTER_EXH);
                    if matches!(op.kind, Kind::NextBack | Kind::NthBack) && front == n && n > 0 {
                        st.hit(C_NB_AFTER_FRONT_EXH);
                    }
                    if matches!(op.kind, Kind::Next | Kind::Nth) && back == n && n > 0 {
                        st.hit(C_N_AFTER_BACK_EXH);
                    }
                }
                if op.kind == Kind::Clone && slots[hi].consumed_back {
                    st.hit(C_CLONE_AFTER_NB);
                }
                if rem == 1 && front > 0 && back > 0 {
                    st.hit(C_MEET);
                }
            }

            let fail = |oracle: &'static str, e: String, o: String| Failure { oracle, step, op: Some(op.clone()), expected: e, observed: o };
            macro_rules! item_op {
                ($real:expr, $model:expr) => {{
                    let got = catch(|| $real).map_err(|p| fail("panic", "no panic".into(), format!("panic: {}", p)))?;
                    let want = mi($model);
                    self.trace.u(got.code());
                    self.note(|| format!("{} -> {}", op.line(), got.show()));
                    if let Some(st) = stats.as_deref_mut() {
                        if matches!(got, Item::None) { st.hit(C_NONE) } else { st.hit(C_SOME) }
                    }
                    if !matches!(got, Item::None) {
                        self.nontrivial = true;
                    }
                    if let Item::Alien(_) = got {
                        return Err(fail("alien_item", want.show(), got.show()));
                    }
                    if got != want {
                        return Err(fail("result", want.show(), got.show()));
                    }
                }};
            }
            macro_rules! list_op {
                ($real:expr, $model:expr) => {{
                    let got: Vec<Item> = catch(|| $real).map_err(|p| fail("panic", "no panic".into(), format!("panic: {}", p)))?;
                    let want: Vec<Item> = $model;
                    for g in &got {
                        self.trace.u(g.code());
                    }
                    self.note(|| format!("{} -> {}", op.line(), show_items(&got)));
                    if !got.is_empty() {
                        self.nontrivial = true;
                    }
                    if got != want {
                        return Err(fail("result", show_items(&want), show_items(&got)));
                    }
                }};
            }
            macro_rules! num_op {
                ($real:expr, $model:expr) => {{
                    let got = catch(|| $real).map_err(|p| fail("panic", "no panic".into(), format!("panic: {}", p)))?;
                    let want = $model;
                    self.note(|| format!("{} -> {:?}", op.line(), got));
                    if got != want {
                        return Err(fail("result", format!("{:?}", want), format!("{:?}", got)));
                    }
                    got
                }};
            }
            let k = op.k;
            match op.kind {
                Kind::Next => {
                    let s = &mut slots[hi];
                    item_op!(s.real.next(), s.model.next())
                }
                Kind::Armed => {
                    let s = &slots[hi];
                    let burst = [1usize, 2, 17, 40][k % 4];
                    s.real.armed_clones(if n > 300 { 1 } else { burst });
                    self.note(|| format!("{} (burst of {})", op.line(), burst));
                }
                Kind::HopNext => {
                    // len() here, next() over there, len() here again - with nothing in between that could refresh
                    // whatever this thread remembers about the iterator
                    let s = &mut slots[hi];
                    let before = catch(|| s.real.len()).map_err(|p| fail("panic_len", "no panic".into(), format!("panic: {}", p)))?;
                    if before != s.model.hi - s.model.lo {
                        return Err(fail("len", (s.model.hi - s.model.lo).to_string(), before.to_string()));
                    }
                    item_op!(s.real.hop_next(), s.model.next());
                    let s = &mut slots[hi];
                    let after = catch(|| (s.real.len(), s.real.size_hint())).map_err(|p| fail("panic_len", "no panic".into(), format!("panic: {}", p)))?;
                    let want = s.model.hi - s.model.lo;
                    if after != (want, (want, Some(want))) {
                        return Err(fail("len", format!("{} and ({}, Some({})) after next() on another thread", want, want, want), format!("{:?}", after)));
                    }
                }
                Kind::NextBack => {
                    let s = &mut slots[hi];
                    s.consumed_back = true;
                    item_op!(s.real.next_back(), s.model.next_back())
                }
                Kind::Nth => {
                    let s = &mut slots[hi];
                    item_op!(s.real.nth(k), s.model.nth(k))
                }
                Kind::NthBack => {
                    let s = &mut slots[hi];
                    s.consumed_back = true;
                    item_op!(s.real.nth_back(k), s.model.nth_back(k))
                }
                Kind::SkipNext => {
                    let s = &mut slots[hi];
                    item_op!(s.real.skip_next(k), s.model.by_ref().skip(k).next())
                }
                Kind::RevNth => {
                    let s = &mut slots[hi];
                    s.consumed_back = true;
                    item_op!(s.real.rev_nth(k), s.model.by_ref().rev().nth(k))
                }
                Kind::RevSkipNext => {
                    let s = &mut slots[hi];
                    s.consumed_back = true;
                    item_op!(s.real.rev_skip_next(k), s.model.by_ref().rev().skip(k).next())
                }
                Kind::DrainLast => {
                    let s = &mut slots[hi];
                    item_op!(s.real.drain_last(), s.model.by_ref().last())
                }
                Kind::TakeBack => {
                    let s = &mut slots[hi];
                    s.consumed_back = true;
                    item_op!(s.real.take_back(k), s.model.by_ref().take(k).next_back())
                }
                Kind::SkipBack => {
                    let s = &mut slots[hi];
                    s.consumed_back = true;
                    item_op!(s.real.skip_back(k), s.model.by_ref().skip(k).next_back())
                }
                Kind::StepByBack => {
                    let s = &mut slots[hi];
                    s.consumed_back = true;
                    item_op!(s.real.step_by_back(k), s.model.by_ref().step_by(k).next_back())
                }
                Kind::EnumerateBack => {
                    let s = &mut slots[hi];
                    s.consumed_back = true;
                    let got = catch(|| s.real.enumerate_back()).map_err(|p| fail("panic", "no panic".into(), format!("panic: {}", p)))?;
                    let want = s.model.by_ref().enumerate().next_back().map(|(i, x)| (i, Item::Some(x)));
                    self.note(|| format!("{} -> {:?}", op.line(), got));
                    if let Some((i, it)) = &got {
                        self.trace.u(*i as u64);
                        self.trace.u(it.code());
                        self.nontrivial = true;
                    }
                    if got != want {
                        return Err(fail("result", format!("{:?}", want), format!("{:?}", got)));
                    }
                }
                Kind::StepBy => {
                    let s = &mut slots[hi];
                    let t = op.t;
                    list_op!(s.real.step_by_take(k, t), s.model.by_ref().step_by(k).take(t).map(Item::Some).collect())
                }
                Kind::DrainCount => {
                    let s = &mut slots[hi];
                    let g = num_op!(s.real.drain_count(), s.model.by_ref().count());
                    self.trace.u(g as u64);
                }
                Kind::Len => {
                    let s = &slots[hi];
                    let got = catch(|| s.real.len()).map_err(|p| fail("panic", "no panic".into(), format!("panic: {}", p)))?;
                    self.note(|| format!("{} -> {}", op.line(), got));
                    self.trace.u(got as u64);
                    if got != s.model.len() {
                        return Err(fail("len", s.model.len().to_string(), got.to_string()));
                    }
                }
                Kind::SizeHint => {
                    let s = &slots[hi];
                    let got = catch(|| s.real.size_hint()).map_err(|p| fail("panic", "no panic".into(), format!("panic: {}", p)))?;
                    self.note(|| format!("{} -> {:?}", op.line(), got));
                    self.trace.u(got.0 as u64);
                    let l = s.model.len();
                    if got != (l, Some(l)) {
                        return Err(fail("size_hint", format!("({}, Some({}))", l, l), format!("{:?}", got)));
                    }
                }
                Kind::DebugFmt => {
                    let s = &slots[hi];
                    let got = catch(|| s.real.debug_fmt()).map_err(|p| fail("panic", "no panic".into(), format!("panic: {}", p)))?;
                    self.note(|| format!("{} -> {:?}", op.line(), got));
                }
                Kind::VLast => {
                    let s = &slots[hi];
                    item_op!(s.real.v_last(), s.model.clone().last())
                }
                Kind::VCount => {
                    let s = &slots[hi];
                    let g = num_op!(s.real.v_count(), s.model.clone().count());
                    self.trace.u(g as u64);
                }
                Kind::VFold => {
                    let s = &slots[hi];
                    list_op!(s.real.v_fold(), s.model.clone().fold(Vec::new(), |mut a, x| {
                        a.push(Item::Some(x));
                        a
                    }))
                }
                Kind::VRfold => {
                    let s = &slots[hi];
                    list_op!(s.real.v_rfold(), s.model.clone().rfold(Vec::new(), |mut a, x| {
                        a.push(Item::Some(x));
                        a
                    }))
                }
                Kind::VCollect => {
                    let s = &slots[hi];
                    list_op!(s.real.v_collect(), s.model.clone().map(Item::Some).collect())
                }
                Kind::VRevCollect => {
                    let s = &slots[hi];
                    list_op!(s.real.v_rev_collect(), s.model.clone().rev().map(Item::Some).collect())
                }
                Kind::VPosition => {
                    let s = &slots[hi];
                    let g = num_op!(s.real.v_position(k), s.model.clone().position(|x| x == k));
                    self.trace.u(g.map(|x| x as u64 + 1).unwrap_or(0));
                }
                Kind::VRposition => {
                    let s = &slots[hi];
                    let g = num_op!(s.real.v_rposition(k), s.model.clone().rposition(|x| x == k));
                    self.trace.u(g.map(|x| x as u64 + 1).unwrap_or(0));
                }
                Kind::VFind => {
                    let s = &slots[hi];
                    item_op!(s.real.v_find(k), s.model.clone().find(|x| *x == k))
                }
                Kind::VRfind => {
                    let s = &slots[hi];
                    item_op!(s.real.v_rfind(k), s.model.clone().rfind(|x| *x == k))
                }
                Kind::Any => {
                    let s = &mut slots[hi];
                    let g = num_op!(s.real.any_is(k), s.model.any(|x| x == k));
                    self.trace.u(g as u64);
                }
                Kind::All => {
                    let s = &mut slots[hi];
                    let g = num_op!(s.real.all_not(k), s.model.all(|x| x != k));
                    self.trace.u(g as u64);
                }
                Kind::Find => {
                    let s = &mut slots[hi];
                    item_op!(s.real.find_ip(k), s.model.find(|x| *x == k))
                }
                Kind::Rfind => {
                    let s = &mut slots[hi];
                    s.consumed_back = true;
                    item_op!(s.real.rfind_ip(k), s.model.rfind(|x| *x == k))
                }
                Kind::Position => {
                    let s = &mut slots[hi];
                    let g = num_op!(s.real.position_ip(k), s.model.position(|x| x == k));
                    self.trace.u(g.map(|x| x as u64 + 1).unwrap_or(0));
                }
                Kind::Rposition => {
                    let s = &mut slots[hi];
                    s.consumed_back = true;
                    let g = num_op!(s.real.rposition_ip(k), s.model.rposition(|x| x == k));
                    self.trace.u(g.map(|x| x as u64 + 1).unwrap_or(0));
                }
                Kind::VCycleTake => {
                    let s = &slots[hi];
                    let t = k % (2 * n + 3);
                    list_op!(s.real.v_cycle_take(t), s.model.clone().cycle().take(t).map(Item::Some).collect())
                }
                Kind::VZipRev => {
                    let s = &slots[hi];
                    list_op!(s.real.v_zip_rev(), s.model.clone().zip(s.model.clone().rev()).flat_map(|(a, b)| [Item::Some(a), Item::Some(b)]).collect())
                }
                Kind::VChainSkip => {
                    let s = &slots[hi];
                    list_op!(s.real.v_chain_skip(k), s.model.clone().chain(s.model.clone()).skip(k).map(Item::Some).collect())
                }
                Kind::VPeekable => {
                    let s = &slots[hi];
                    let want: Vec<Item> = {
                        let mut p = s.model.clone().peekable();
                        let mut out = Vec::new();
                        for round in 0..(n + 2) {
                            match p.peek().copied() {
                                None => {
                                    out.push(Item::None);
                                    break;
                                }
                                Some(i) => out.push(Item::Some(i)),
                            }
                            let nx = if round % 2 == 0 { p.next() } else { p.next_if(|_| true) };
                            out.push(mi(nx));
                        }
                        out
                    };
                    list_op!(s.real.v_peekable(), want)
                }
                Kind::VIterEq => {
                    let s = &slots[hi];
                    let rem_now = s.model.len();
                    let g = num_op!(s.real.v_iter_eq(), (true, rem_now == 0));
                    self.trace.u(g.0 as u64 * 2 + g.1 as u64);
                }
                Kind::CloneFrom => {
                    let src = k % slots.len();
                    if src != hi {
                        let mut dst = slots.remove(hi);
                        let src_i = if src > hi { src - 1 } else { src };
                        let r = catch(|| dst.real.clone_from_dyn(&*slots[src_i].real));
                        dst.model = slots[src_i].model.clone();
                        dst.consumed_back = slots[src_i].consumed_back;
                        dst.parent = Some(src);
                        slots.insert(hi, dst);
                        r.map_err(|p| fail("panic", "no panic".into(), format!("panic: {}", p)))?;
                        self.note(|| op.line());
                    }
                }
                Kind::Clone => {
                    if slots.len() < MAX_HANDLES {
                        let s = &slots[hi];
                        let real = catch(|| s.real.dup()).map_err(|p| fail("panic", "no panic".into(), format!("panic: {}", p)))?;
                        let model = s.model.clone();
                        let cb = s.consumed_back;
                        slots.push(Slot { real, model, consumed_back: cb, parent: Some(hi) });
                        self.note(|| format!("{} -> handle {}", op.line(), slots.len() - 1));
                    }
                }
                Kind::Iter => {
                    let real = catch(|| (case.make)()).map_err(|p| fail("panic", "no panic".into(), format!("panic: {}", p)))?;
                    let ns = Slot { real, model: Model { lo: 0, hi: n }, consumed_back: false, parent: None };
                    if slots.len() < MAX_HANDLES {
                        slots.push(ns);
                    } else {
                        slots[hi] = ns;
                        for s in slots.iter_mut() {
                            if s.parent == Some(hi) {
                                s.parent = None;
                            }
                        }
                    }
                    self.note(|| op.line());
                }
                Kind::Drop => {
                    if slots.len() > 1 {
                        slots.remove(hi);
                        for s in slots.iter_mut() {
                            s.parent = match s.parent {
                                Some(p) if p == hi => None,
                                Some(p) if p > hi => Some(p - 1),
                                o => o,
                            };
                        }
                        self.note(|| format!("{} -> dropped", op.line()));
                    }
                }
            }
            // invariants on EVERY live handle: this is what decides "clones advance independently"
            for i in 0..slots.len() {
                let s = slots.remove(i);
                let r = self.check_slot(step, Some(op), &s);
                slots.insert(i, s);
                r?;
            }
            if let Some(st) = stats.as_deref_mut() {
                for s in slots.iter() {
                    if let Some(p) = s.parent {
                        if p < slots.len() && (slots[p].model.lo != s.model.lo || slots[p].model.hi != s.model.hi) {
                            st.hit(C_CLONE_DIVERGED);
                            break;
                        }
                    }
                }
            }
        }
        if let Some(st) = stats {
            if saw_huge {
                st.hit(C_RUN_HUGE)
            } else {
                st.hit(C_RUN_NOHUGE)
            }
            if n == 0 {
                st.hit(C_EMPTY_RUN);
            }
        }
        Ok(())
    }
}

// ------------------------------------------------------------------------------------------
// Workload generation (the seeded scheduler).

/// `style`: 0 = careful walk (k small relative to what remains, so the iterator makes real
/// progress), 1 = mixed, 2 = aggressive (many exhausting calls).
fn gen_k(rng: &mut Rng, n: usize, rem: usize, allow_huge: bool, huge_weight: u32, style: u8) -> usize {
    // classes: small step | 0..N+1 | around remaining | N+2..64 | MAX/2 | MAX-1 | MAX | random u64
    //          | just around a power of two (where a narrowing cast of n would wrap)
    let w_huge = if allow_huge { huge_weight } else { 0 };
    let w = match style {
        0 => [70, 8, 12, 2, w_huge / 2, w_huge / 2, w_huge, w_huge / 2, w_huge],
        1 => [35, 25, 18, 4, w_huge, w_huge, 2 * w_huge, w_huge, 2 * w_huge],
        _ => [10, 40, 20, 6, w_huge, w_huge, 2 * w_huge, w_huge, 2 * w_huge],
    };
    match rng.weighted(&w) {
        0 => rng.usize_below(rem / 3 + 1),
        1 => rng.usize_below(n + 2),
        2 => {
            let d = rng.usize_below(3); // rem-1, rem, rem+1
            (rem + d).saturating_sub(1)
        }
        3 => rng.range(n as u64 + 2, (n as u64 + 10).max(64)) as usize,
        4 => usize::MAX / 2 + rng.usize_below(3) - 1,
        5 => usize::MAX - 1,
        6 => usize::MAX,
        7 => (rng.next_u64() | (1 << 40)) as usize,
        _ => {
            // 2^b - 1, 2^b, 2^b + (0..N+1): wraps to a small in-range value under `as u8/u16/u32`
            let b = [8u32, 16, 31, 32, 48, 63][rng.usize_below(6)];
            let base = 1usize << b;
            match rng.below(4) {
                0 => base - 1,
                1 => base,
                _ => base.wrapping_add(rng.usize_below(n + 2)),
            }
        }
    }
}

fn advance_shadow(sh: &mut Vec<Model>, n: usize, h: usize, op: &Op) {
    let k = op.k;
    match op.kind {
        Kind::Next | Kind::HopNext => {
            sh[h].next();
        }
        Kind::NextBack => {
            sh[h].next_back();
        }
        Kind::Nth | Kind::SkipNext => {
            sh[h].nth(k);
        }
        Kind::NthBack | Kind::RevNth | Kind::RevSkipNext => {
            sh[h].nth_back(k);
        }
        Kind::StepBy => {
            let _ = sh[h].by_ref().step_by(k).take(op.t).count();
        }
        Kind::DrainLast | Kind::DrainCount => {
            let _ = sh[h].by_ref().count();
        }
        Kind::TakeBack => {
            let _ = sh[h].by_ref().take(k).next_back();
        }
        Kind::SkipBack => {
            let _ = sh[h].by_ref().skip(k).next_back();
        }
        Kind::EnumerateBack => {
            let _ = sh[h].by_ref().enumerate().next_back();
        }
        Kind::StepByBack => {
            let _ = sh[h].by_ref().step_by(k).next_back();
        }
        Kind::Clone => {
            if sh.len() < MAX_HANDLES {
                let c = sh[h].clone();
                sh.push(c);
            }
        }
        Kind::CloneFrom => {
            let src = k % sh.len();
            if src != h {
                sh[h] = sh[src].clone();
            }
        }
        Kind::Any | Kind::Find | Kind::Position => {
            let _ = sh[h].find(|x| *x == k);
        }
        Kind::All => {
            let _ = sh[h].all(|x| x != k);
        }
        Kind::Rfind | Kind::Rposition => {
            let _ = sh[h].rfind(|x| *x == k);
        }
        Kind::Drop => {
            if sh.len() > 1 {
                sh.remove(h);
            }
        }
        Kind::Iter => {
            if sh.len() < MAX_HANDLES {
                sh.push(Model { lo: 0, hi: n });
            } else {
                sh[h] = Model { lo: 0, hi: n };
            }
        }
        _ => {}
    }
}

pub fn gen_ops(rng: &mut Rng, n: usize) -> (Vec<Op>, bool) {
    // swarm: each run enables its own subset of operation families and fault kinds
    let style = rng.weighted(&[40, 35, 25]) as u8;
    let allow_huge = rng.chance(55, 100);
    let huge_weight = [2u32, 6, 14][rng.usize_below(3)];
    let allow_clone = rng.chance(70, 100);
    let allow_adapters = rng.chance(60, 100);
    let allow_back = rng.chance(85, 100);
    let allow_by_value = rng.chance(50, 100);
    let allow_len_adapters = rng.chance(50, 100);
    // (the draws above are made in every mode, so that the PRNG stream does not depend on it)
    let core = CORE_ONLY.load(std::sync::atomic::Ordering::Relaxed);
    let (allow_adapters, allow_by_value, allow_len_adapters) = (allow_adapters && !core, allow_by_value && !core, allow_len_adapters && !core);
    let keep_going_after_exhaustion = rng.chance(40, 100);
    let steps = rng.range(4, 40) as usize;
    let mut ops = Vec::with_capacity(steps + 2);
    // shadow model per handle so that the generator can aim at interesting states
    let mut sh: Vec<Model> = vec![Model { lo: 0, hi: n }];
    // jump start: put the first handle at a uniformly chosen (front, back) cursor state, so that
    // every cursor pair of every N is a starting point of many runs
    let mut jumped = false;
    if n > 0 && rng.chance(45, 100) {
        jumped = true;
        let front = rng.usize_below(n + 1);
        let back = rng.usize_below(n - front + 1);
        if front > 0 {
            let op = Op::with(Kind::Nth, 0, front - 1);
            advance_shadow(&mut sh, n, 0, &op);
            ops.push(op);
        }
        if back > 0 {
            let op = Op::with(Kind::NthBack, 0, back - 1);
            advance_shadow(&mut sh, n, 0, &op);
            ops.push(op);
        }
    }
    let mut i = 0;
    while i < steps {
        i += 1;
        let h = rng.usize_below(sh.len());
        let rem = sh[h].hi - sh[h].lo;
        if rem == 0 && !keep_going_after_exhaustion && rng.chance(60, 100) {
            // an exhausted handle: usually get a fresh one instead of hammering it
            let op = Op::new(Kind::Iter, h);
            advance_shadow(&mut sh, n, h, &op);
            ops.push(op);
            continue;
        }
        let ad = |on: bool, w: u32| if on { w } else { 0 };
        // same order as KINDS
        let w = [
            30u32,                                       // next
            ad(allow_back, 22),                          // next_back
            22,                                          // nth
            ad(allow_back, 12),                          // nth_back
            4,                                           // len
            3,                                           // size_hint
            ad(allow_clone, 8),                          // clone
            ad(allow_clone, 2),                          // drop
            ad(allow_adapters, 7),                       // skip_next
            ad(allow_adapters, 6),                       // step_by
            ad(allow_adapters && allow_back, 4),         // rev_nth
            ad(allow_adapters && allow_back, 3),         // rev_skip_next
            ad(allow_adapters && style == 2, 1),         // last (drains)
            ad(allow_adapters && style == 2, 1),         // count (drains)
            1,                                           // debug_fmt
            2,                                           // iter
            ad(allow_len_adapters && allow_back, 5),     // take_back
            ad(allow_len_adapters && allow_back, 5),     // skip_back
            ad(allow_len_adapters && allow_back, 4),     // enumerate_back
            ad(allow_len_adapters && allow_back, 4),     // step_by_back
            ad(allow_by_value, 3),                       // v_last
            ad(allow_by_value, 3),                       // v_count
            ad(allow_by_value, 3),                       // v_fold
            ad(allow_by_value, 3),                       // v_rfold
            ad(allow_by_value, 2),                       // v_collect
            ad(allow_by_value, 2),                       // v_rev_collect
            ad(allow_by_value, 2),                       // v_position
            ad(allow_by_value, 2),                       // v_rposition
            ad(allow_by_value, 2),                       // v_find
            ad(allow_by_value, 2),                       // v_rfind
            ad(allow_clone, 3),                          // clone_from
            ad(allow_by_value, 2),                       // v_cycle_take
            ad(allow_by_value, 2),                       // v_zip_rev
            ad(allow_by_value, 2),                       // v_chain_skip
            ad(allow_by_value, 2),                       // v_peekable
            ad(allow_by_value, 1),                       // v_iter_eq
            ad(allow_adapters, 2),                       // any
            ad(allow_adapters, 2),                       // all
            ad(allow_adapters, 2),                       // find
            ad(allow_adapters && allow_back, 2),         // rfind
            ad(allow_adapters, 2),                       // position
            ad(allow_adapters && allow_back, 2),         // rposition
            1,                                           // hop_next
            2,                                           // armed
        ];
        let kind = KINDS[rng.weighted(&w)].0;
        let mut op = Op::new(kind, h);
        if op.k_is_count() {
            op = Op::with(kind, h, gen_k(rng, n, rem, allow_huge, huge_weight, style));
            if kind == Kind::StepBy {
                op.t = rng.range(1, 4) as usize;
            }
        } else if kind == Kind::CloneFrom {
            op.k = rng.usize_below(MAX_HANDLES);
        } else if kind == Kind::Armed {
            op.k = rng.usize_below(4);
        } else if kind == Kind::VCycleTake {
            op.k = rng.usize_below(2 * n + 3);
        } else if op.has_k() {
            // target item of find/position: any item index, sometimes one past the end
            op.k = rng.usize_below(n + 2);
        }
        advance_shadow(&mut sh, n, h, &op);
        ops.push(op);
    }
    (ops, jumped)
}

// ------------------------------------------------------------------------------------------
// Replay, minimisation, main.

fn find_case<'a>(cases: &'a [Case], name: &str) -> Option<&'a Case> {
    cases.iter().find(|c| c.name == name)
}

pub fn run_script(case: &Case, ops: &[Op], keep_log: bool) -> (Result<(), Failure>, Vec<String>) {
    let mut ex = Exec::new(case, keep_log);
    let r = ex.run(ops, None);
    (r, ex.log.unwrap_or_default())
}

fn minimise(case: &Case, ops: Vec<Op>, sig: &str) -> Vec<Op> {
    let same = |cand: &[Op]| -> bool {
        match run_script(case, cand, false).0 {
            Err(f) => f.signature() == sig,
            Ok(()) => false,
        }
    };
    // cut everything after the failing step first
    let mut ops = ops;
    if let (Err(f), _) = run_script(case, &ops, false) {
        ops.truncate(f.step.max(1));
    }
    let mut ops = ddmin(ops, |c| same(c));
    // argument shrinking, class-preserving because the signature carries the k size class
    for i in 0..ops.len() {
        if ops[i].has_k() {
            let k = ops[i].k;
            let cands: Vec<usize> = if k > 64 {
                vec![usize::MAX, usize::MAX - 1, usize::MAX / 2, 65]
            } else {
                (0..k.min(8)).collect()
            };
            for c in cands {
                if c == k {
                    break;
                }
                let mut cand = ops.clone();
                cand[i] = Op { k: if matches!(ops[i].kind, Kind::StepBy | Kind::StepByBack) { c.max(1) } else { c }, ..ops[i].clone() };
                if same(&cand) {
                    ops = cand;
                    break;
                }
            }
        }
        // handle renumbering towards 0
        if ops[i].h != 0 {
            let mut cand = ops.clone();
            cand[i] = Op { h: 0, ..ops[i].clone() };
            if same(&cand) {
                ops = cand;
            }
        }
    }
    ddmin(ops, |c| same(c))
}

/// `main` for the binary over the enums around 2^16 variants: core alphabet only (see `HC`)
pub fn main_core(cases: &'static [Case]) -> ! {
    CORE_ONLY.store(true, std::sync::atomic::Ordering::Relaxed);
    main(cases)
}

pub fn main(cases: &'static [Case]) -> ! {
    let cli = parse_cli();
    quiet_panics();
    println!("sim_c05 seed={} profile={} corpus={} cases={} tier={}", cli.seed, PROFILE, cli.corpus_tag, cases.len(), cli.tier);

    if let Some(path) = &cli.replay {
        let rf = match read_replay(path) {
            Ok(r) => r,
            Err(e) => {
                eprintln!("HARNESS-ERROR {}", e);
                std::process::exit(2)
            }
        };
        let case = match find_case(cases, &rf.case) {
            Some(c) => c,
            None => {
                eprintln!("HARNESS-ERROR unknown case {} in corpus {}", rf.case, cli.corpus_tag);
                std::process::exit(2)
            }
        };
        let ops: Vec<Op> = match rf.script.iter().map(|l| Op::parse(l)).collect() {
            Ok(o) => o,
            Err(e) => {
                eprintln!("HARNESS-ERROR {}", e);
                std::process::exit(2)
            }
        };
        let (r, log) = run_script(case, &ops, true);
        println!("case {} (N={}) {}", case.name, case.n, case.desc);
        for l in log {
            println!("  {}", l);
        }
        match r {
            Err(f) => {
                println!("REPLAY-FAILS oracle={} signature={} step={} expected={} observed={}", f.oracle, f.signature(), f.step, f.expected, f.observed);
                std::process::exit(1)
            }
            Ok(()) => {
                println!("REPLAY-PASSES");
                std::process::exit(0)
            }
        }
    }

    if cases.is_empty() {
        eprintln!("HARNESS-ERROR empty corpus");
        std::process::exit(2);
    }
    let t0 = now();
    let seed = cli.seed;
    let describe = |run: u64| -> Option<Violation> {
        let mut rng = Rng::for_run(seed, ENGINE_ID, 0, run);
        let case = &cases[rng.usize_below(cases.len())];
        let (ops, _) = gen_ops(&mut rng, case.n);
        Some(Violation { oracle: String::new(), signature: String::new(), run, case: case.name.to_string(), script: ops.iter().map(|o| o.line()).collect(), expected: String::new(), observed: String::new() })
    };
    let mut stats = run_parallel(&cli, "C05", NAMES, &describe, |run, st| {
        let mut rng = Rng::for_run(seed, ENGINE_ID, 0, run);
        let case = &cases[rng.usize_below(cases.len())];
        let (ops, jumped) = gen_ops(&mut rng, case.n);
        if jumped {
            st.hit(C_JUMP_START);
        }
        let keep = run < 3;
        let mut ex = Exec::new(case, keep);
        let r = ex.run(&ops, Some(st));
        if keep {
            st.samples.push(
                Json::obj()
                    .set("run", Json::u(run))
                    .set("case", Json::s(case.name))
                    .set("n_enabled", Json::u(case.n as u64))
                    .set("enum", Json::s(case.desc))
                    .set("history", Json::strs(ex.log.clone().unwrap_or_default())),
            );
        }
        if let Err(f) = r {
            st.violation(Violation {
                oracle: f.oracle.to_string(),
                signature: f.signature(),
                run,
                case: case.name.to_string(),
                script: ops.iter().map(|o| o.line()).collect(),
                expected: f.expected,
                observed: f.observed,
            });
        }
        st.end_run(run, ex.trace, ex.nontrivial, ex.steps);
    });
    let wall = t0.elapsed().as_secs_f64();

    // state-coverage denominator from the model: (N, front, back) with front+back <= N
    let mut ns: Vec<usize> = cases.iter().map(|c| c.n).collect();
    ns.sort_unstable();
    ns.dedup();
    let reachable_states: u64 = ns.iter().map(|n| ((n + 1) * (n + 2) / 2) as u64).sum();
    let reachable_states_small: u64 = ns.iter().filter(|n| **n <= 8).map(|n| ((n + 1) * (n + 2) / 2) as u64).sum();
    let mut visited_states = std::collections::BTreeSet::new();
    let mut visited_states_small = std::collections::BTreeSet::new();
    let mut visited_state_ops_small = std::collections::BTreeSet::new();
    for c in &stats.cover {
        visited_states.insert(c >> 16);
        if (c >> 32) <= 8 {
            visited_states_small.insert(c >> 16);
            visited_state_ops_small.insert(c >> 8);
        }
    }
    // ops that need a handle to operate on (every kind applies in every cursor state)
    let reachable_state_ops_small = reachable_states_small * KINDS.len() as u64;

    // minimise + write replay files for each distinct signature
    let mut candidates = Vec::new();
    let vs: Vec<Violation> = stats.violations.values().cloned().collect();
    for v in vs {
        let case = find_case(cases, &v.case).unwrap();
        let ops: Vec<Op> = v.script.iter().map(|l| Op::parse(l).unwrap()).collect();
        let orig_len = ops.len();
        let min_ops = if cli.no_minimise { ops } else { minimise(case, ops, &v.signature) };
        let (r, _) = run_script(case, &min_ops, false);
        let (exp, obs) = match r {
            Err(f) => (f.expected, f.observed),
            Ok(()) => (v.expected.clone(), v.observed.clone()),
        };
        let mv = Violation { script: min_ops.iter().map(|o| o.line()).collect(), expected: exp, observed: obs, ..v.clone() };
        let fname = format!("{}/C05-{}-{}-{}-{}.json", cli.replay_dir, PROFILE, cli.seed, mv.run, sanitize(&mv.signature));
        let _ = std::fs::create_dir_all(&cli.replay_dir);
        let j = replay_json("C05", &cli, &mv, orig_len).set("enum", Json::s(case.desc));
        if let Err(e) = std::fs::write(&fname, j.pretty()) {
            eprintln!("HARNESS-ERROR cannot write {}: {}", fname, e);
            std::process::exit(2);
        }
        println!("CANDIDATE property=C05 signature={} oracle={} replay={}", mv.signature, mv.oracle, fname);
        candidates.push(Json::obj().set("signature", Json::s(mv.signature.clone())).set("oracle", Json::s(mv.oracle.clone())).set("replay", Json::s(fname)).set("case", Json::s(mv.case.clone())).set("script", Json::strs(mv.script.iter().cloned())));
    }
    let extra = Json::obj()
        .set("cases", Json::u(cases.len() as u64))
        .set("n_values", Json::Arr(ns.iter().map(|n| Json::u(*n as u64)).collect()))
        .set("reachable_cursor_states", Json::u(reachable_states))
        .set("visited_cursor_states", Json::u(visited_states.len() as u64))
        .set("reachable_cursor_states_n_le_8", Json::u(reachable_states_small))
        .set("visited_cursor_states_n_le_8", Json::u(visited_states_small.len() as u64))
        .set("reachable_state_x_opkind_n_le_8", Json::u(reachable_state_ops_small))
        .set("visited_state_x_opkind_n_le_8", Json::u(visited_state_ops_small.len() as u64))
        .set("visited_state_op_kclass_tuples", Json::u(stats.cover.len() as u64));
    let total_v = stats.violation_total;
    write_partial(&cli, "C05", "sim_c05", &mut stats, wall, extra, candidates);
    println!("sim_c05 done runs={} steps={} violations={} wall={:.2}s", stats.runs, stats.steps, total_v, wall);
    std::process::exit(if total_v > 0 { 1 } else { 0 })
}

pub fn sanitize(s: &str) -> String {
    s.chars().map(|c| if c.is_ascii_alphanumeric() || c == '_' { c } else { '_' }).collect()
}

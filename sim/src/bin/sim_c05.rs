#[allow(dead_code, unused_imports, non_camel_case_types, clippy::all)]
mod corpus {
    include!(concat!(env!("SIM_CORPUS_DIR"), "/c05.rs"));
}

fn main() {
    strum_sim::c05::main(corpus::CASES)
}

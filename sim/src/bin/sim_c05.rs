#[allow(warnings, clippy::all)]
mod corpus {
    include!(concat!(env!("SIM_CORPUS_DIR"), "/c05.rs"));
}

fn main() {
    strum_sim::c05::main(corpus::CASES)
}

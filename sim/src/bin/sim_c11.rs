#[allow(warnings, clippy::all)]
mod corpus {
    include!(concat!(env!("SIM_CORPUS_DIR"), "/c11.rs"));
}

fn main() {
    strum_sim::c11::main(corpus::CASES)
}

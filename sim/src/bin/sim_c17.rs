#[allow(warnings, clippy::all)]
mod corpus {
    include!(concat!(env!("SIM_CORPUS_DIR"), "/c17.rs"));
}

fn main() {
    strum_sim::c17::main(corpus::CASES)
}

//! Compile-time clause of C05 (Send + Sync). If `sim_c05` builds and this does not, the only
//! difference is the `T: Send + Sync` bound on the generated iterator types.
#[allow(warnings, clippy::all)]
mod corpus {
    include!(concat!(env!("SIM_CORPUS_DIR"), "/c05.rs"));
}
include!(concat!(env!("SIM_CORPUS_DIR"), "/c05_probe.rs"));

fn main() {
    println!("send_sync_probe_ok types={}", probe_all());
}

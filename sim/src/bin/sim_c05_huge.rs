//! C05 on enums around the 2^16 boundary (thorough tier only; slow to compile).
#[allow(warnings, clippy::all)]
mod corpus {
    include!(concat!(env!("SIM_CORPUS_DIR"), "/c05_huge.rs"));
}

fn main() {
    strum_sim::c05::main_core(corpus::CASES)
}

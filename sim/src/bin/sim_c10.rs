#[allow(warnings, clippy::all)]
mod corpus {
    include!(concat!(env!("SIM_CORPUS_DIR"), "/c10.rs"));
}

fn main() {
    strum_sim::c10::main(corpus::CASES)
}

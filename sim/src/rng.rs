//! The only source of randomness in the simulator: SplitMix64 for key derivation and
//! xoshiro256** for the per-run stream. One `VERIF_SEED` decides everything.

#[derive(Clone, Debug)]
pub struct SplitMix64(pub u64);

impl SplitMix64 {
    #[inline]
    pub fn next(&mut self) -> u64 {
        self.0 = self.0.wrapping_add(0x9E37_79B9_7F4A_7C15);
        let mut z = self.0;
        z = (z ^ (z >> 30)).wrapping_mul(0xBF58_476D_1CE4_E5B9);
        z = (z ^ (z >> 27)).wrapping_mul(0x94D0_49BB_1331_11EB);
        z ^ (z >> 31)
    }
}

#[derive(Clone, Debug)]
pub struct Rng {
    s: [u64; 4],
}

impl Rng {
    /// Stream for one run. `engine` and `stream` separate the engines and the sub-streams
    /// (workload, fault plan, ...) so that adding draws to one does not shift another.
    pub fn for_run(seed: u64, engine: u64, stream: u64, run: u64) -> Rng {
        let mut sm = SplitMix64(seed ^ 0xA076_1D64_78BD_642F);
        let a = sm.next();
        let mut sm = SplitMix64(a ^ engine.wrapping_mul(0xE703_7ED1_A0B4_28DB));
        let b = sm.next();
        let mut sm = SplitMix64(b ^ stream.wrapping_mul(0x8EBC_6AF0_9C88_C6E3));
        let c = sm.next();
        let mut sm = SplitMix64(c ^ run.wrapping_mul(0x5899_65CC_7537_4CC3));
        let s = [sm.next(), sm.next(), sm.next(), sm.next()];
        Rng { s }
    }

    #[inline]
    pub fn next_u64(&mut self) -> u64 {
        let r = self.s[1].wrapping_mul(5).rotate_left(7).wrapping_mul(9);
        let t = self.s[1] << 17;
        self.s[2] ^= self.s[0];
        self.s[3] ^= self.s[1];
        self.s[1] ^= self.s[2];
        self.s[0] ^= self.s[3];
        self.s[2] ^= t;
        self.s[3] = self.s[3].rotate_left(45);
        r
    }

    /// Uniform in 0..n (n > 0). Uses the widening-multiply method; the tiny bias is irrelevant.
    #[inline]
    pub fn below(&mut self, n: u64) -> u64 {
        debug_assert!(n > 0);
        ((self.next_u64() as u128 * n as u128) >> 64) as u64
    }

    #[inline]
    pub fn range(&mut self, lo: u64, hi_incl: u64) -> u64 {
        lo + self.below(hi_incl - lo + 1)
    }

    #[inline]
    pub fn usize_below(&mut self, n: usize) -> usize {
        self.below(n as u64) as usize
    }

    /// true with probability num/den
    #[inline]
    pub fn chance(&mut self, num: u64, den: u64) -> bool {
        self.below(den) < num
    }

    pub fn pick<'a, T>(&mut self, xs: &'a [T]) -> &'a T {
        &xs[self.usize_below(xs.len())]
    }

    /// Weighted choice: returns the index.
    pub fn weighted(&mut self, weights: &[u32]) -> usize {
        let total: u64 = weights.iter().map(|w| *w as u64).sum();
        debug_assert!(total > 0);
        let mut x = self.below(total);
        for (i, w) in weights.iter().enumerate() {
            if x < *w as u64 {
                return i;
            }
            x -= *w as u64;
        }
        weights.len() - 1
    }
}

#[cfg(test)]
mod tests {
    use super::*;
    #[test]
    fn deterministic() {
        let mut a = Rng::for_run(1, 5, 0, 7);
        let mut b = Rng::for_run(1, 5, 0, 7);
        for _ in 0..100 {
            assert_eq!(a.next_u64(), b.next_u64());
        }
        let mut c = Rng::for_run(1, 5, 0, 8);
        assert_ne!(a.next_u64(), c.next_u64());
    }
}

// Selects which generated corpus directory the engines are compiled against.
// Default: the committed base corpus. The thorough tier points VERIF_CORPUS_DIR at a freshly
// generated one (see /verif/check).
use std::env;
use std::path::PathBuf;

fn main() {
    println!("cargo:rerun-if-env-changed=VERIF_CORPUS_DIR");
    let dir = match env::var("VERIF_CORPUS_DIR") {
        Ok(d) if !d.is_empty() => PathBuf::from(d),
        _ => PathBuf::from(env::var("CARGO_MANIFEST_DIR").unwrap()).join("corpus/base"),
    };
    println!("cargo:rerun-if-changed={}", dir.display());
    println!("cargo:rustc-env=SIM_CORPUS_DIR={}", dir.display());
    println!("cargo:rerun-if-changed=build.rs");
}

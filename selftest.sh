#!/bin/bash
# Proves properties of the simulator itself (not of strum):
#   determinism : same VERIF_SEED => same event log, across executions, processes and worker counts;
#                 corpus generator independent of PYTHONHASHSEED
#   mutants     : sensitivity / specificity against /verif/mutants/*.diff in scratch worktrees
# usage: ./selftest.sh determinism [nseeds] | robust | mutants [-j N] | all
set -u
cd "$(dirname "$0")"
export CARGO_NET_OFFLINE=true CARGO_TARGET_DIR=/verif/target
mode="${1:-determinism}"
nseeds="${2:-200}"

determinism() {
  (cd sim && cargo build --offline --bins -q && cargo build --offline --release --bins -q) || { echo "HARNESS-ERROR build"; exit 2; }
  tmp=$(mktemp -d /tmp/vdet.XXXXXX)
  fail=0
  total=0
  for eng in sim_c05 sim_c10 sim_c11 sim_c17; do
    for prof in debug release; do
      bin=/verif/target/$prof/$eng
      for seed in $(seq 1 "$nseeds"); do
        # four executions in separate processes: workers 1 and 16, twice each
        for rep in a b; do
          for w in 1 16; do
            "$bin" --seed "$seed" --runs 1500 --workers "$w" --hashlog "$tmp/h.$rep.$w" --replay-dir "$tmp/rp" >/dev/null 2>&1 &
          done
        done
        wait
        total=$((total+1))
        if ! cmp -s "$tmp/h.a.1" "$tmp/h.b.1" || ! cmp -s "$tmp/h.a.1" "$tmp/h.a.16" || ! cmp -s "$tmp/h.a.1" "$tmp/h.b.16"; then
          echo "NONDETERMINISM engine=$eng profile=$prof seed=$seed"
          fail=$((fail+1))
        fi
        # debug and release must also agree on the event log (same workload, same observations)
        cp "$tmp/h.a.1" "$tmp/ref.$eng.$prof.$seed"
      done
    done
    for seed in $(seq 1 "$nseeds"); do
      if ! cmp -s "$tmp/ref.$eng.debug.$seed" "$tmp/ref.$eng.release.$seed"; then
        echo "PROFILE-DIVERGENCE engine=$eng seed=$seed (debug and release event logs differ)"
        fail=$((fail+1))
      fi
    done
    echo "determinism $eng: $nseeds seeds x 2 profiles x 4 executions compared"
  done
  # corpus generator under different hash seeds, fresh interpreters
  for hs in 0 1 12345; do
    PYTHONHASHSEED=$hs python3 gen/gen_corpus.py --seed 0 --out "$tmp/gen.$hs" >/dev/null || fail=$((fail+1))
  done
  for f in c05.rs c05_probe.rs c10.rs c11.rs c17.rs; do
    cmp -s "$tmp/gen.0/$f" "$tmp/gen.1/$f" && cmp -s "$tmp/gen.0/$f" "$tmp/gen.12345/$f" && cmp -s "$tmp/gen.0/$f" "sim/corpus/base/$f" \
      || { echo "GENERATOR-NONDETERMINISM $f (or committed base corpus is stale)"; fail=$((fail+1)); }
  done
  echo "generator: 3 hash seeds compared with the committed base corpus"
  rm -rf "$tmp"
  echo "determinism: $total (engine,profile,seed) groups, failures=$fail"
  [ "$fail" -eq 0 ]
}

robust() {
  # the fallback corpus must build and hold on the unchanged tree, and be what the generator produces
  tmp=$(mktemp -d /tmp/vrob.XXXXXX)
  fail=0
  for fb in robust:7 minimal:9; do
    name=${fb%%:*}; seed=${fb##*:}
    python3 gen/gen_corpus.py --seed "$seed" --out "$tmp/gen-$name" --size "$name" >/dev/null
    for f in c05.rs c10.rs c11.rs c17.rs; do
      cmp -s "$tmp/gen-$name/$f" "sim/corpus/$name/$f" || { echo "committed $name corpus is stale: $f"; fail=$((fail+1)); }
    done
    for eng in sim_c05 sim_c10 sim_c11 sim_c17; do
      (cd sim && VERIF_CORPUS_DIR=/verif/sim/corpus/$name CARGO_TARGET_DIR="$tmp/target" cargo build --offline --bin $eng -q) || { echo "$name corpus does not build for $eng"; fail=$((fail+1)); continue; }
      "$tmp/target/debug/$eng" --runs 300000 --replay-dir "$tmp/rp" --corpus-tag $name | tail -1
      [ "${PIPESTATUS[0]}" -eq 0 ] || { echo "$name corpus: violation or error for $eng"; fail=$((fail+1)); }
    done
  done
  rm -rf "$tmp"
  echo "robust: failures=$fail"
  [ "$fail" -eq 0 ]
}

case "$mode" in
  determinism) determinism ;;
  robust) robust ;;
  mutants) shift; python3 mutants/run_mutants.py "$@" ;;
  all) determinism && robust && python3 mutants/run_mutants.py -j 6 && python3 seeded/recheck.py -j 6 ;;
  *) echo "usage: $0 determinism [nseeds] | robust | mutants [-j N] | all"; exit 2 ;;
esac

#!/bin/sh
# Run once after a fresh restore, offline: builds the simulator binaries (both profiles) from files on disk.
set -e
cd "$(dirname "$0")/sim"
export CARGO_NET_OFFLINE=true
export CARGO_TARGET_DIR=/verif/target
cargo build --offline --bins
cargo build --offline --release --bins

#!/usr/bin/env python3
"""Writes /verif/MANIFEST.json (kept as a script so the claimed set and the N/A list stay in sync)."""
import json, os
HERE = os.path.dirname(os.path.abspath(__file__))

CLAIMED = {
 "C05": dict(
   text="Seeded search over operation histories (31 operation kinds: next/next_back/nth/nth_back/len/size_hint/clone/clone_from, skip/step_by/rev/take/enumerate adapters from both ends, by-value last/count/fold/rfold/find/position on clones) on 1-4 live iterator handles of ~115 generated enum instantiations (N=0..8 enabled variants plus 13..4097, thorough tier also 65535..65537; every placement of disabled variants, explicit discriminants, attribute noise, generics instantiated with a !Send+!Sync payload), in debug (overflow checks on) and release (off) builds, against a two-cursor reference model whose nth/skip/step_by/rev behaviour is core's own default methods; after every step every live handle's len, size_hint and full remaining contents from both ends are compared. Huge-n arguments (usize::MAX, MAX-1, MAX/2, around powers of two, random u64) are the injected fault. The Send+Sync clause is decided by compiling a probe; a liveness watchdog turns a call that does not return into a replayable 'hang' violation. Exploration, not proof: every (N, front, back) cursor state is visited for each corpus N and the evidence reports the measured coverage.",
   note="Trusted: rustc/core (reference adapters), the corpus generator's explicit expected-item lists, the harness. Histories are sampled (bounded to 40 steps, 4 handles), not enumerated.",
   technique="deterministic simulation: seeded operation-history search vs. reference model, huge-n fault injection, debug+release",
   design="3"),
 "C10": dict(
   text="Seeded search over write/read/constructor histories on 1-3 live EnumTable values of ~90 generated field-less enums (1..300 slots, disabled variants in every position, explicit discriminants, attribute noise, keyword/acronym/digit/case-pair identifiers) against a Vec reference map; every written value is unique so each read is attributable to one write; after every step every slot of every live table is compared. Injected faults: planted None/Err slots in every position subset for all()/all_ok() (first-Err-in-declaration-order oracle), indexing with disabled keys (must panic and change nothing), panicking closures during from_closure/transform; clone/clone_from/eq/hash probes between live tables. Exploration, not proof.",
   note="Trusted: rustc/core, the generator-written key lists and positional new() glue, the harness. Histories are sampled, not enumerated.",
   technique="deterministic simulation: seeded write/read history search vs. reference map, planted None/Err and disabled-key fault injection",
   design="4"),
 "C11": dict(
   text="The real derived Display/FromStr/AsRef/Into<&'static str> forwarding code runs between a simulated caller (256 format specs x runtime width/precision), a fault-injecting fmt::Write sink and a scripted inner value (Probe) that records the Formatter state it is handed, chunks its output and can fail on its own; outputs, results and recorded formatter state are compared with formatting the inner value directly. Capture leg: every input outside the generator-written claim set (case flips, one-edit neighbours, Unicode look-alikes, invisible prefixes, disabled variants' and the default variant's own spellings, 4 KiB strings) must come back inside the default variant byte-for-byte, with exactly one From<&str> call. Exploration, not proof.",
   note="Trusted: rustc/core::fmt, the generator-written claim sets, the harness. The capture/AsRef legs have no fault dimension (stated in DESIGN 5.2).",
   technique="deterministic simulation: forwarding layer between simulated caller, fault-injecting sink and scripted inner value",
   design="5.2"),
 "C17": dict(
   text="Generated Display::fmt for every variant kind is driven by a simulated caller (format-spec grid with runtime width/precision) into a fault-injecting fmt::Write sink and compared with rustc's own write!(sink, spec, NAME) for fixed names and write!(sink, \"<same literal>\", fields..) for placeholder names; fault-free runs demand byte equality and the same result (incl. Err when a field's own Display fails), sink-fault runs demand Err plus accepted bytes being a prefix of the reference output (nothing duplicated, reordered or written after a refusal); placeholder variants under non-trivial caller specs are held to the error-propagation invariants only. Exploration, not proof.",
   note="Trusted: rustc/core::fmt (the reference side), the generator-written canonical names and reference arms, the harness. Non-trivial caller specs on interpolated variants are outside the statement and not checked.",
   technique="deterministic simulation: generated Display vs. rustc format_args! through a fault-injecting fmt::Write sink",
   design="5.1"),
}

NA = {
 "C01": "from_str is a pure function of (enum definition, input string): no state, stream, fault, schedule or history for a simulator to own; deciding it would be input generation only.",
 "C02": "print-then-parse composes two pure functions; the only stream involved is an infallible String.",
 "C03": "agreement of seven constant-returning functions and a constant array; nothing varies with a schedule, fault or history.",
 "C04": "two fixed deterministic drains per enum plus a constant; the history-quantified generalisation is C05 (whose model takes the item list from the generator), COUNT itself is a compile-time constant.",
 "C06": "from_repr is a pure (optionally const) function of one integer; exhaustive input enumeration is not simulation.",
 "C07": "string-to-string case conversion evaluated at macro-expansion time; pure.",
 "C08": "equalities between compile-time constants and one deterministic iteration.",
 "C09": "a generated enum definition plus pure From matches; compile-time structure and pure functions.",
 "C12": "pure string comparison per match arm, quantified over inputs only.",
 "C13": "pure pattern matches; the only mutation is a write through a returned &mut with no history to explore.",
 "C14": "four pure lookups into constant data.",
 "C15": "pure nested matches; the macro's HashMap iteration order cannot reach the output, so there is no nondeterminism to put behind a seam.",
 "C16": "differential equivalence of two builds of a pure function plus a compile outcome; the shared static PHF map is immutable.",
 "C18": "a pure function plus a call count on an infallible user callback invoked at one fixed point; no fault, order or schedule varies.",
 "C19": "compile-time name resolution under build configurations; nothing executes.",
 "C20": "the macro is a deterministic function from tokens to tokens-or-error evaluated inside rustc; a macro panic is a function value, not a crash point a scheduler could move.",
}

def main(built):
    checks = []
    na = []
    for pid in sorted(CLAIMED):
        c = CLAIMED[pid]
        if pid not in built:
            na.append({"property_id": pid, "reason": "simulation check designed (DESIGN.md section %s) but not built yet; not claimed until it runs" % c["design"]})
            continue
        checks.append({
            "property_id": pid,
            "quick_cmd": "./check %s quick" % pid,
            "thorough_cmd": "./check %s thorough" % pid,
            "evidence_file": "/verif/evidence/%s.json" % pid,
            "replay_cmd_template": "./check %s --replay {path}" % pid,
            "engine": "sim_%s" % pid.lower(),
            "level_claimed": {"category": "exploration", "text": c["text"], "design_ref": "DESIGN.md section " + c["design"]},
            "level_note": c["note"],
            "technique": c["technique"],
        })
    for pid in sorted(NA):
        na.append({"property_id": pid, "reason": NA[pid]})
    na.sort(key=lambda x: x["property_id"])
    m = {
        "version": 1,
        "setup_cmd": "./setup.sh",
        "hooks": {
            "guard": "none",
            "enable": "no hooks: every seam the simulator uses is public API of the generated code (fmt::Write argument, user payload types, closures, key values); checks build /repo unmodified through a cargo path dependency",
            "baseline_off_cmd": "cd /repo && cargo test --workspace --no-fail-fast --offline",
            "source_commits": [],
            "add_only": True,
        },
        "engines": [
            {"name": "sim_%s" % p.lower(), "path": "/verif/sim/src/%s.rs" % p.lower(), "serves_properties": [p],
             "kind_free_text": "seeded deterministic simulator (own PRNG scheduler, reference model, fault injection, ddmin minimiser, replay files)"}
            for p in sorted(built)
        ],
        "checks": checks,
        "not_applicable": na,
        "notes": "Technique family: deterministic simulation with fault injection. 4 of 20 properties have a history, stream or fallible-peer dimension and are claimed; the other 16 are pure functions or compile-time outcomes and are listed as not applicable with reasons (DESIGN.md sections 0, 1, 6). One genuine defect (C05, nth overflow) was found and repaired in /repo commit 1f12437; see known_findings.json.",
    }
    with open(os.path.join(HERE, "MANIFEST.json"), "w") as f:
        json.dump(m, f, indent=1)
        f.write("\n")

if __name__ == "__main__":
    import sys
    main(set(sys.argv[1:]))
